#!/usr/bin/env python3
"""Rewrites the '## 9.' section of DESIGN.md from seeded/*/meta.json."""
import json, glob, os, re
root = os.path.dirname(os.path.dirname(os.path.abspath(__file__)))
rows = []
for d in sorted(glob.glob(os.path.join(root, "seeded", "C*-*")) + glob.glob(os.path.join(root, "seeded", "R*-C*-*"))):
    m = json.load(open(os.path.join(d, "meta.json")))
    name = os.path.basename(d)
    summ = re.sub(r"\s+", " ", str(m.get("summary", ""))).replace("|", "\\|")
    if len(summ) > 230: summ = summ[:227] + "..."
    tr = m.get("trials", [])
    first = tr[0]["result"].split(" ")[0] if tr else "?"
    final = "; ".join(f"{t['check']}/{t['tier']}: {t['result']}" for t in tr).replace("|", "\\|")
    rows.append(f"| {name} | {summ} | {first} | {final} |")
sec = """## 9. Independently seeded changes and which checks catch them

Fresh sub-agents, given only the text of one property and a scratch worktree, each wrote
property-breaking changes that still compile and pass the existing suite, with a demonstration.
Every change was re-confirmed here (`scripts/verify_seeded.sh`), archived under `seeded/`, applied to
`/repo` (`scripts/seeded_trial.sh`, always reverted) and run against the quick tier of the owning
check. "first" is the outcome of the *first* trial, before any strengthening; the last column is the
full trial history. Checks were strengthened wherever a change was missed (never loosened).

| change | what it does | first | trials |
|---|---|---|---|
""" + "\n".join(rows) + "\n\n"
p = os.path.join(root, "DESIGN.md")
s = open(p).read()
if "## 9. Independently seeded changes" in s:
    a = s.index("## 9. Independently seeded changes")
    b = s.index("## Appendix A")
    s = s[:a] + sec + "---------------------------------------------------------------------------------------------------\n\n" + s[b:]
else:
    b = s.index("## Appendix A")
    s = s[:b] + sec + "---------------------------------------------------------------------------------------------------\n\n" + s[b:]
open(p, "w").write(s)
print(len(rows), "rows")
