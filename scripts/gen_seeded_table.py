#!/usr/bin/env python3
"""Rewrites the '## 9.' and '## 10.' sections of DESIGN.md from seeded/*/meta.json and mutations/RESULTS.md."""
import json, glob, os, re
root = os.path.dirname(os.path.dirname(os.path.abspath(__file__)))
rows = []
for d in sorted(glob.glob(os.path.join(root, "seeded", "C*-*")) + glob.glob(os.path.join(root, "seeded", "R*-C*-*"))):
    m = json.load(open(os.path.join(d, "meta.json")))
    name = os.path.basename(d)
    summ = re.sub(r"\s+", " ", str(m.get("summary", ""))).replace("|", "\\|")
    if len(summ) > 230: summ = summ[:227] + "..."
    tr = m.get("trials", [])
    first = tr[0]["result"].split(" ")[0] if tr else "?"
    final = "; ".join(f"{t['check']}/{t['tier']}: {t['result']}" for t in tr).replace("|", "\\|")
    rows.append(f"| {name} | {summ} | {first} | {final} |")
def tally(prefix):
    tot = first_ok = final_ok = 0
    for d in sorted(glob.glob(os.path.join(root, "seeded", prefix))):
        tr = json.load(open(os.path.join(d, "meta.json"))).get("trials", [])
        tot += 1
        first_ok += bool(tr) and tr[0]["result"].startswith("CAUGHT")
        final_ok += any(t["result"].startswith("CAUGHT") for t in tr)
    return tot, first_ok, final_ok
r1, r2, r3, r4, r5, r6 = tally("C*-*"), tally("R2-C*-*"), tally("R3-C*-*"), tally("R4-C*-*"), tally("R5-C*-*"), tally("R6-C*-*")
r7 = tally("R7-C*-*")
r8 = tally("R8-C*-*")
summary = f"""Round 1 (`C??-n`, two changes per property, free choice of defect): {r1[0]} changes, {r1[1]} caught at the
first trial, {r1[2]} caught after strengthening. Round 2 (`R2-C??-n`, two more per property; the agents were
asked for defects that need *scale, a long history or an unusual-but-legal input* to manifest, because
round 1 showed that was where the checks were thin): {r2[0]} changes, {r2[1]} caught at the first trial,
{r2[2]} caught after strengthening. Round 3 (`R3-C??-n`; the agents were asked for defects that live in an
*interaction of features or a secondary entry point* and are right on the mainstream path): {r3[0]} changes,
{r3[1]} caught at the first trial, {r3[2]} caught after strengthening - the misses showed that the per-property
oracles were only ever asked of engines built in one batch by the default path, so the same oracles are now
also asked of a Blocker that received the rules one at a time (`Blocker::add_filter`: C01, C04, C06, C13,
C15), of optimising engines (C01, C02 families), and of engines loaded from serialized bytes (C03, C15, C16,
C17; C08 with tags enabled before loading). Round 4 (`R4-C??-n`; defects at the *boundary of the input grammar* -
rare spellings, empty / repeated / contradictory option values, case, encodings - or depending on hash /
iteration order): {r4[0]} changes, {r4[1]} caught at the first trial, {r4[2]} caught after strengthening; the
misses were spellings no generator produced (empty tag, `csp=`, whitespace after `##`, upper-case schemes,
i32::MIN priorities, regex entries in `domain=`, combining marks in identifiers, `Duration::MAX`), two places
where an oracle re-used the parser's own reading of a rule (C14 types, C15 directive: both now re-read the
rule text), and tie cases that were skipped instead of being checked for determinism. Round 5 (`R5-C??-n`;
"a different kind from the four above": defaults, symmetric counterparts, second matches, aliasing between
representations, early exits, off-by-one at the ends, state left by a failed operation): {r5[0]} changes,
{r5[1]} caught at the first trial, {r5[2]} caught after strengthening, and one (R5-C11-1) neutralised: the
mixed-case host names generated to catch it made C11 fail on the unchanged tree instead (`||WWW.host^`, a genuine
defect, fixed in /repo), after which the seeded change no longer changes behaviour. Many round-5 changes
re-discovered earlier root causes (first-match-then-tag-test, empty pattern lost in fusion, tags dropped by a
failed load, content-keyed regex cache), which is why most were caught at once. Round 6 (`R6-C??-n`) repeats
round 1's prompt word for word (free choice) against the final checks, as a before/after measurement:
{r6[0]} changes, {r6[1]} caught at the first trial (round 1: {r1[1]} of {r1[0]}), {r6[2]} after strengthening (whole-URL
prefix families, a failing reload in C07's histories, the normalised URL compared as a whole, negated types in
C14, a dense cosmetic phase in C19). Round 7 (`R7-C??-n`) asked for *representation* defects: changes in
the code that turns text into the internal form (parsers, masks, hashes, ids, (de)serializers) such that the
library still agrees with itself - exactly the class that differential oracles and oracles built on the
library's own parse cannot see: {r7[0]} changes, {r7[1]} caught at the first trial, {r7[2]} after strengthening. Two of
them cannot be caught by the check of the property they were written against, by construction (R7-C01-2
changes how `domain=www.x` is parsed, which "engine == evaluation of the parsed rules" shares; R7-C16-2 is an
argument-encoding defect): they are caught by C03 and C18, which own those semantics. The rest needed
spellings nobody generated (`www.` domain entries, mixed-case tags, `document` next to another type, `=` inside
a directive, combinators without spaces, escaped `-` inside a regex class, padding other than a space between
scriptlet arguments, a query directly after the host), option order rotation in C14/C15, and one more
oracle-independence repair: C13's store model had been given the library's own reading of the resource kind.
Round 8 (`R8-C??-n`, ten properties only) asked for defects in *what is reported* and in the less prominent
clauses of each statement: {r8[0]} changes, {r8[1]} caught at the first trial, {r8[2]} after strengthening (digit-leading
host labels, `Expires` amounts around every integer width, pre-parsed requests for URLs `Request::new` rejects;
one change is caught by C01 instead of its nominal owner C03 because the cell it touches is excluded there by
an open finding).
Apart from those oracle weaknesses (C13, C14, C15) every miss was a generator-reach problem (sizes, depths,
lengths, histories, entry points, spellings); each strengthening widened the generated domain and was followed
by a multi-seed silence run on the unchanged tree.

"""
retrial = ""
rp = os.path.join(root, "seeded", "RETRIAL.md")
if os.path.exists(rp):
    lines = [l for l in open(rp).read().splitlines()[2:] if l.startswith("|")]
    ok = sum(1 for l in lines if "| CAUGHT" in l)
    rest = [l.split("|")[1].strip() + " (" + l.split("|")[3].strip()[:40] + ")" for l in lines if "| CAUGHT" not in l]
    retrial = f"""**Regression over the whole archive.** Because the checks kept changing while the rounds went on,
`scripts/retrial_all.sh` re-applies EVERY archived change to a private clone of /repo and runs the current
quick check recorded as catching it (normally the owning property's; 4 lanes, about 1.5-2 h). Last run (after the tape change described in section 0):
{ok} of {len(lines)} caught (`seeded/RETRIAL.md`); not caught: {", ".join(rest) if rest else "none"}
(R5-C11-1 is the change neutralised by fix a24949c, see round 5 above).

"""
mut = ""
mp = os.path.join(root, "mutations", "RESULTS.md")
if os.path.exists(mp):
    last = {}
    for l in open(mp).read().splitlines()[2:]:
        cells = [c.strip() for c in l.strip().strip("|").split("|")]
        if len(cells) >= 4:
            name = cells[0]
            hist = last.get(name, (cells[1], cells[2], []))
            hist[2].append("CAUGHT" if cells[3].startswith("CAUGHT") else "MISSED")
            last[name] = hist
    mrows = [f"| {n} | {v[0]} | {'passes' if v[1] == 'BASELINE OK' else 'fails (the suite notices)'} | {' -> '.join(v[2])} |" for n, v in sorted(last.items())]
    ok_first = sum(1 for v in last.values() if v[2][0] == "CAUGHT")
    ok_final = sum(1 for v in last.values() if v[2][-1] == "CAUGHT")
    mut = f"""## 10. Own mutation trials

`scripts/make_mutations.py` writes {len(last)} hand-made one-idea mutations of `/repo` (`mutations/<name>/patch.diff`),
`scripts/run_mutations.sh` applies each, runs the repository's own suite (`scripts/baseline.sh`) and the
quick tier of the owning check, and always reverts. They complement §9: they are *my* guesses at
plausible slips (swapped operands, dropped special case, first-match-only, prefix instead of equality),
so they measure sensitivity, not independence. {ok_first} of {len(last)} were caught at the first run,
{ok_final} after two generators were widened (C02: URL universe now contains `% _ - = & :` next to
separators; C20: 1 case in 25 has 40-540 rules). Mutations the repository's own suite already notices
are kept for completeness; the ones marked "passes" are the realistic kind.

| mutation | property | repo suite with the mutation | quick check (history) |
|---|---|---|---|
""" + "\n".join(mrows) + "\n\n"

sec = """## 9. Independently seeded changes and which checks catch them

Fresh sub-agents, given only the text of one property and a scratch worktree, each wrote
property-breaking changes that still compile and pass the existing suite, with a demonstration.
Every change was re-confirmed here (`scripts/verify_seeded.sh`), archived under `seeded/`, applied to
`/repo` (`scripts/seeded_trial.sh`, always reverted) and run against the quick tier of the owning
check. "first" is the outcome of the *first* trial, before any strengthening; the last column is the
full trial history. Checks were strengthened wherever a change was missed (never loosened).

""" + summary + """""" + retrial + """| change | what it does | first | trials |
|---|---|---|---|
""" + "\n".join(rows) + "\n\n" + mut
p = os.path.join(root, "DESIGN.md")
s = open(p).read()
if "## 9. Independently seeded changes" in s:
    a = s.index("## 9. Independently seeded changes")
    b = s.index("## Appendix A")
    s = s[:a] + sec + "---------------------------------------------------------------------------------------------------\n\n" + s[b:]
else:
    b = s.index("## Appendix A")
    s = s[:b] + sec + "---------------------------------------------------------------------------------------------------\n\n" + s[b:]
open(p, "w").write(s)
print(len(rows), "rows")
