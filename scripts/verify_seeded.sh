#!/bin/bash
# usage: scripts/verify_seeded.sh <worktree> <i> [extra cargo test args for the demo]
# Confirms in the scratch worktree: patch applies, compiles, suite still passes (6 known failures
# allowed), demo fails with the patch and passes without it. Leaves the worktree clean.
WT="$1"; I="$2"; shift 2; EXTRA="$*"
cd "$WT" || exit 2
export CARGO_NET_OFFLINE=true RUST_BACKTRACE=0
git checkout -q -- . ; git clean -fdq -e seeded_out -e target
allowed="check_live_from_filterlists check_live_specific_urls stable_serialization stable_serialization_through_load check_matching_equivalent check_matching_hostnames"
cp seeded_out/demo_$I.rs tests/seeded_demo_$I.rs
# without the patch: demo passes
if cargo test --offline $EXTRA --test seeded_demo_$I >/tmp/vs.$$ 2>&1; then echo "demo passes without patch: yes"; else echo "demo passes without patch: NO"; tail -5 /tmp/vs.$$; fi
git apply seeded_out/patch_$I.diff || { echo "patch does not apply"; exit 1; }
if cargo test --offline $EXTRA --test seeded_demo_$I >/tmp/vs.$$ 2>&1; then echo "demo fails with patch: NO (it passes)"; else echo "demo fails with patch: yes"; grep -m2 -E "panicked|assert" /tmp/vs.$$; fi
rm -f tests/seeded_demo_$I.rs
out=$(cargo test --workspace --no-fail-fast --offline 2>&1)
failed=$(echo "$out" | grep -E "^test .* \.\.\. FAILED" | sed -E 's/^test (.*) \.\.\. FAILED/\1/' | sort -u)
bad=0; for f in $failed; do case " $allowed " in *" $f "*) ;; *) echo "SUITE: unexpected failure $f"; bad=1;; esac; done
passed=$(echo "$out" | grep -E "^test result" | sed -E 's/.* ([0-9]+) passed.*/\1/' | paste -sd+ | bc)
echo "suite with patch: passed=$passed unexpected_failures=$bad"
if echo "$out" | grep -q "error: could not compile"; then echo "SUITE: does not compile"; fi
git checkout -q -- . ; git clean -fdq -e seeded_out -e target
rm -f /tmp/vs.$$
