#!/usr/bin/env python3
"""Rewrites the defects table of DESIGN.md section 4 from known_findings.json."""
import json, os
root = os.path.dirname(os.path.dirname(os.path.abspath(__file__)))
fs = json.load(open(os.path.join(root, "known_findings.json")))["findings"]
rows = []
for f in fs:
    what = f.get("what", "").replace("|", "\\|")
    if len(what) > 260: what = what[:257] + "..."
    disp = f"`fix:` {f['commit']}" if f["status"] == "fixed" else "**open known finding** (probe + exclusion by construction)"
    rows.append(f"| {f['id']} | {f['property']} | {what} | {disp} |")
p = os.path.join(root, "DESIGN.md")
s = open(p).read()
a = s.index("| finding id | property | what failed | disposition |")
b = s.index("Why the ", a)
n_open = sum(1 for f in fs if f["status"] != "fixed")
s = s[:a] + "| finding id | property | what failed | disposition |\n|---|---|---|---|\n" + "\n".join(rows) + "\n\n" + s[b:]
open(p, "w").write(s)
print(len(rows), "findings,", n_open, "open")
