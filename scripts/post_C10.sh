#!/bin/bash
# thorough tier only: coverage-guided libFuzzer campaign for C10 (target deserialize), oracle inside the target
TIER="$1"
ROOT="$(cd "$(dirname "$0")/.." && pwd)"
[ "$TIER" = "thorough" ] || exit 0
"$ROOT/scripts/fuzz_campaign.sh" C10 deserialize "${VERIF_FUZZ_SECONDS:-300}"
rc=$?
python3 - "$ROOT" C10 <<'PY'
import json, sys, os
root, pid = sys.argv[1], sys.argv[2]
ev = os.path.join(root, "evidence", pid + ".json"); fz = os.path.join(root, "evidence", ".fuzz-" + pid + ".json")
try:
    e = json.load(open(ev)); f = json.load(open(fz))
    e["coverage"]["fuzz_campaign"] = f
    e["coverage"]["evaluations"] = int(e["coverage"]["evaluations"]) + int(f.get("executions", 0))
    if f.get("crashes"): e["violations"] = int(e.get("violations", 0)) + 1
    json.dump(e, open(ev, "w"), indent=1); os.remove(fz)
except Exception as ex:
    print("fuzz evidence merge skipped:", ex)
PY
exit $rc
