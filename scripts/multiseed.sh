#!/bin/bash
# usage: scripts/multiseed.sh <tier> <seed-from> <seed-to> [ids...]   -- silence test on the unchanged tree
TIER="$1"; A="$2"; B="$3"; shift 3
IDS="${*:-C01 C02 C03 C04 C05 C06 C07 C08 C09 C10 C11 C12 C13 C14 C15 C16 C17 C18 C19 C20}"
cd "$(dirname "$0")/.."
bad=0
for s in $(seq "$A" "$B"); do
  for id in $IDS; do
    out=$(VERIF_SEED=$s scripts/check.sh "$id" "$TIER" 2>&1); rc=$?
    echo "$out" | grep -E "^(C[0-9]+ (quick|thorough)|VIOLATION|INFRA|---)" 
    if [ $rc -ne 0 ]; then bad=1; echo "$out" | grep -v "^KNOWN" | tail -5; fi
  done
done
exit $bad
