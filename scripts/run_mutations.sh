#!/bin/bash
# For every mutations/<name>/: apply to /repo, run the repo's own suite (does it notice?), run the
# owning property's quick check (does it notice?), revert. Appends to mutations/RESULTS.md.
cd "$(dirname "$0")/.."
[ -n "$(git -C /repo status --porcelain --untracked-files=no)" ] && { echo "repo not clean"; exit 2; }
trap 'git -C /repo checkout -q -- .' EXIT
for d in mutations/m*/; do
  name=$(basename "$d"); id=$(cat "$d/property")
  [ -n "${ONLY:-}" ] && [ "$ONLY" != "$name" ] && continue
  git -C /repo apply "$PWD/$d/patch.diff" || { echo "| $name | $id | patch does not apply | |"; continue; }
  suite=$(scripts/baseline.sh 2>&1 | tail -1)
  out=$(timeout 900 scripts/check.sh "$id" quick 2>&1); rc=$?
  case $rc in 0) res="MISSED";; 1) res="CAUGHT: $(echo "$out" | grep -m1 -A1 '^--- violation' | tail -1 | cut -c1-160 | tr '|' '/')";; *) res="INFRA rc=$rc";; esac
  for f in $(echo "$out" | grep '^VIOLATION' | sed -E 's/.*replay=//'); do rm -f "$f"; done
  git -C /repo checkout -q -- .
  git checkout -q -- evidence 2>/dev/null
  echo "| $name | $id | $suite | $res |" | tee -a mutations/RESULTS.md
done
