#!/bin/bash
# usage: scripts/check.sh <ID> <quick|thorough>
# Rebuilds the harness against /repo's *current working tree* (adblock is a path dependency, so
# cargo re-fingerprints /repo/src on every invocation) and runs the check of one property.
# exit 0 = held on everything explored; 1 = VIOLATION printed; 2 = infrastructure problem.
set -u
ID="${1:?property id}"; TIER="${2:-quick}"
ROOT="$(cd "$(dirname "$0")/.." && pwd)"
export VERIF_ROOT="$ROOT" CARGO_NET_OFFLINE=true RUST_BACKTRACE=0
export VERIF_SEED="${VERIF_SEED:-0}"
# build output always lives under /verif (shared by snapshots started with `vp run`)
TGT_BASE="${VERIF_TARGET_BASE:-/verif/harness}"
cd "$ROOT/harness" || exit 2
build() { # $1 = target dir, rest = cargo args
  local tgt="$1"; shift
  local log; log="$(mktemp)"
  if ! cargo build --release --target-dir "$tgt" "$@" >"$log" 2>&1; then
    echo "INFRA: harness build failed (target $tgt)"; tail -40 "$log"; rm -f "$log"; exit 2
  fi
  rm -f "$log"
}
build "$TGT_BASE/target"
if [ "$ID" = "C19" ] || [ "$ID" = "c19" ]; then
  build "$TGT_BASE/target-sync" --no-default-features
  export VH_SYNC_BIN="$TGT_BASE/target-sync/release/vh"
fi
export VH_BIN="$TGT_BASE/target/release/vh"
cd "$ROOT" || exit 2
if [ -x "$ROOT/scripts/pre_$ID.sh" ]; then "$ROOT/scripts/pre_$ID.sh" "$TIER" || exit $?; fi
# wall-clock watchdog: a check that does not finish is INCONCLUSIVE (exit 2), never a violation
if [ "$TIER" = quick ]; then WD="${VERIF_CHECK_TIMEOUT:-1500}"; else WD="${VERIF_CHECK_TIMEOUT:-21600}"; fi
timeout -k 15 "$WD" "$VH_BIN" check "$ID" --tier "$TIER"
rc=$?
if [ $rc -eq 124 ] || [ $rc -eq 137 ]; then echo "INFRA: check $ID/$TIER did not finish within ${WD}s (inconclusive, not a violation)"; exit 2; fi
if [ $rc -ne 0 ] && [ $rc -ne 1 ]; then echo "INFRA: harness exited with $rc"; exit 2; fi
if [ $rc -eq 0 ] && [ -x "$ROOT/scripts/post_$ID.sh" ]; then "$ROOT/scripts/post_$ID.sh" "$TIER"; rc=$?; fi
exit $rc
