#!/bin/bash
# usage: scripts/fuzz_campaign.sh <ID> <target> <seconds>
# Coverage-guided libFuzzer campaign with the semantic oracle inside the target (fuzz/fuzz_targets).
# exit 0 = no crash within the budget (budget exhausted is NOT a violation); 1 = crash found
# (artifact copied to replays/<ID>/fuzz-<target>-<sha>, VIOLATION line printed); 2 = infrastructure.
set -u
ID="$1"; TARGET="$2"; SECS="$3"
ROOT="$(cd "$(dirname "$0")/.." && pwd)"
export CARGO_NET_OFFLINE=true RUST_BACKTRACE=0
FUZZ_TGT="${VERIF_TARGET_BASE:-/verif/harness}/fuzz-target"
cd "$ROOT/fuzz" || exit 2
log="$(mktemp)"
if ! cargo +nightly fuzz build --fuzz-dir . --target-dir "$FUZZ_TGT" "$TARGET" >"$log" 2>&1; then
  echo "INFRA: cargo fuzz build failed"; tail -30 "$log"; rm -f "$log"; exit 2
fi
rm -f "$log"
WORK="$(mktemp -d "${FUZZ_TGT}/work-${TARGET}-XXXXXX")"
mkdir -p "$WORK/corpus" "$WORK/artifacts"
cp -r "$ROOT/fuzz/corpus/$TARGET/." "$WORK/corpus/" 2>/dev/null || true
SEED="${VERIF_SEED:-0}"; [ "$SEED" = "0" ] && SEED=1
JOBS="${VERIF_FUZZ_JOBS:-8}"
cargo +nightly fuzz run --fuzz-dir . --target-dir "$FUZZ_TGT" "$TARGET" "$WORK/corpus" -- \
  -max_total_time="$SECS" -seed="$SEED" -len_control=0 -max_len=4096 -malloc_limit_mb=1024 -rss_limit_mb=4096 \
  -timeout=20 -artifact_prefix="$WORK/artifacts/" -jobs="$JOBS" -workers="$JOBS" -print_final_stats=1 >"$WORK/log" 2>&1
rc=$?
execs=$(grep -h "stat::number_of_executed_units" "$WORK"/log fuzz-*.log 2>/dev/null | awk '{s+=$2} END {print s+0}')
rm -f fuzz-*.log
found=0
for a in "$WORK"/artifacts/crash-* "$WORK"/artifacts/oom-* "$WORK"/artifacts/timeout-*; do
  [ -e "$a" ] || continue
  case "$a" in *timeout-*|*oom-*) echo "fuzz: ignoring $(basename "$a") (hang/OOM of the fuzz process is inconclusive, not a violation)"; continue;; esac
  found=1
  mkdir -p "$ROOT/replays/$ID"
  dst="$ROOT/replays/$ID/fuzz-$TARGET-$(sha1sum "$a" | cut -c1-16)"
  cp "$a" "$dst"
  echo "--- libFuzzer crash in target $TARGET"; grep -h -m3 -E "panicked|assertion|ERROR" "$WORK"/log 2>/dev/null | head -5
  echo "VIOLATION property=$ID replay=$dst"
done
echo "fuzz: target=$TARGET seconds=$SECS executions=${execs:-unknown} crashes=$found corpus=$(ls "$WORK/corpus" | wc -l)"
echo "{\"target\":\"$TARGET\",\"seconds\":$SECS,\"executions\":${execs:-0},\"crashes\":$found}" > "$ROOT/evidence/.fuzz-$ID.json"
rm -rf "$WORK"
[ $found -eq 1 ] && exit 1
exit 0
