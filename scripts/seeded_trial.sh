#!/bin/bash
# usage: scripts/seeded_trial.sh <seeded/<name>> <tier> <ID> [ID...]
# Applies a kept, property-breaking change to /repo's working tree, runs the given checks, and
# ALWAYS reverts /repo afterwards. Evidence files are restored; replays found are moved into the
# seeded directory as proof. Prints one line per check: CAUGHT / MISSED / INFRA.
set -u
DIR="$1"; TIER="$2"; shift 2
ROOT="$(cd "$(dirname "$0")/.." && pwd)"
cd "$ROOT"
if [ -n "$(git -C /repo status --porcelain --untracked-files=no)" ]; then echo "refusing: /repo working tree is not clean"; exit 2; fi
revert() { git -C /repo checkout -q -- . ; }
trap revert EXIT
git -C /repo apply "$ROOT/$DIR/patch.diff" || { echo "patch does not apply"; exit 2; }
mkdir -p "$ROOT/$DIR/found"
for ID in "$@"; do
  start=$(date +%s)
  out=$(timeout "${TRIAL_TIMEOUT:-1200}" scripts/check.sh "$ID" "$TIER" 2>&1); rc=$?
  if [ $rc -eq 124 ]; then pkill -f "vh check $ID" 2>/dev/null; pkill -f "vh worker" 2>/dev/null; fi
  dur=$(( $(date +%s) - start ))
  case $rc in
    0) echo "MISSED  $DIR by $ID/$TIER (${dur}s)";;
    1) echo "CAUGHT  $DIR by $ID/$TIER (${dur}s): $(echo "$out" | grep -m1 -A1 '^--- violation' | tail -1 | cut -c1-300)";;
    *) echo "INFRA   $DIR by $ID/$TIER rc=$rc: $(echo "$out" | tail -3 | tr '\n' ' ' | cut -c1-300)";;
  esac
  for f in $(echo "$out" | grep '^VIOLATION' | sed -E 's/.*replay=//'); do [ -f "$f" ] && mv "$f" "$ROOT/$DIR/found/$(basename "$f")"; done
done
git -C "$ROOT" checkout -q -- evidence 2>/dev/null
