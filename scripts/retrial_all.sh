#!/bin/bash
# usage: scripts/retrial_all.sh [lanes] [glob]   -- regression over ALL archived seeded changes:
# every seeded/<dir> is applied to a private clone of /repo (one per lane; /repo itself is not
# touched) and the OWNING quick check of a private copy of /verif is run against it.
# Prints one line per change (CAUGHT / MISSED / INFRA) to seeded/RETRIAL.md; cleans up its lanes.
LANES="${1:-4}"; GLOB="${2:-*}"
ROOT="$(cd "$(dirname "$0")/.." && pwd)"
BASE="$(mktemp -d /tmp/retrial-XXXXXX)"
OUT="$ROOT/seeded/RETRIAL.md"
[ "$GLOB" = "*" ] || OUT="$(mktemp /tmp/retrial-partial-XXXXXX.md)"   # partial runs do not replace the table
dirs=( $(cd "$ROOT/seeded" && ls -d $GLOB 2>/dev/null | grep -E '^(R[0-9]+-)?C[0-9]+-[0-9]+$' | sort) )
echo "retrial of ${#dirs[@]} seeded changes in $LANES lanes under $BASE"
lane() {
  local i="$1"; local L="$BASE/lane$i"
  mkdir -p "$L"
  git clone -q /repo "$L/repo"
  rsync -a --exclude 'harness/target*' --exclude 'harness/run*' --exclude 'harness/fuzz-target' --exclude 'fuzz/target*' --exclude '.git' "$ROOT/" "$L/verif/"
  sed -i "s|path = \"/repo\"|path = \"$L/repo\"|" "$L/verif/harness/Cargo.toml" "$L/verif/fuzz/Cargo.toml"
  local k=0
  for d in "${dirs[@]}"; do
    k=$((k+1)); [ $(( k % LANES )) -eq $(( i % LANES )) ] || continue
    # the check to run: the owning property's if it is recorded as CAUGHT, else the last CAUGHT one (normally the owning
    # property's check; two round-7 changes are representation defects owned by another check)
    id=$(python3 -c "import json,sys; m=json.load(open(sys.argv[1])); t=m.get('trials') or [{}]; c=[x.get('check') for x in t if str(x.get('result','')).startswith('CAUGHT')]; p=m.get('property'); print(p if (p in c or not c) else c[-1])" "$ROOT/seeded/$d/meta.json" 2>/dev/null)
    [ -n "$id" ] || id=$(echo "$d" | sed -E 's/^(R[0-9]+-)?(C[0-9]+)-[0-9]+$/\2/')
    git -C "$L/repo" checkout -q -- . ; git -C "$L/repo" clean -fdq
    if ! git -C "$L/repo" apply "$ROOT/seeded/$d/patch.diff" 2>/dev/null; then echo "| $d | $id | PATCH DOES NOT APPLY to the current tree |" >> "$L/out"; continue; fi
    out=$(cd "$L/verif" && VERIF_TARGET_BASE="$L/tgt" VERIF_CHECK_TIMEOUT=1200 scripts/check.sh "$id" quick 2>&1); rc=$?
    case $rc in
      0) res="MISSED";;
      1) res="CAUGHT: $(echo "$out" | grep -m1 -A1 '^--- violation' | tail -1 | cut -c1-140 | tr '|' '/')";;
      *) res="INFRA rc=$rc $(echo "$out" | tail -1 | cut -c1-100)";;
    esac
    echo "| $d | $id | $res |" >> "$L/out"
    rm -f "$L/verif/replays/$id"/viol-*.json
  done
}
for i in $(seq 1 "$LANES"); do lane "$i" & done
wait
{ echo "| change | check | result of the current quick check |"; echo "|---|---|---|"; cat "$BASE"/lane*/out | sort; } > "$OUT"
rm -rf "$BASE"
grep -c CAUGHT "$OUT"; grep -v CAUGHT "$OUT" | tail -n +3
