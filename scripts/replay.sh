#!/bin/bash
# usage: scripts/replay.sh <ID> <path>  -- re-run one saved failing case without any generator
ID="$1"; P="$2"
ROOT="$(cd "$(dirname "$0")/.." && pwd)"
export VERIF_ROOT="$ROOT" CARGO_NET_OFFLINE=true RUST_BACKTRACE=0
base="$(basename "$P")"
case "$base" in
  fuzz-*)
    tgt="$(echo "$base" | sed -E 's/^fuzz-(.*)-[0-9a-f]{16}$/\1/')"
    cd "$ROOT/fuzz" && cargo +nightly fuzz run --fuzz-dir . --target-dir "${VERIF_TARGET_BASE:-/verif/harness}/fuzz-target" "$tgt" "$P" -- -runs=1 >/tmp/replay.$$ 2>&1
    rc=$?; tail -5 /tmp/replay.$$; rm -f /tmp/replay.$$
    if [ $rc -ne 0 ]; then echo "VIOLATION property=$ID replay=$P"; exit 1; fi
    echo "replay passes: $ID / $tgt"; exit 0;;
  *)
    TGT_BASE="${VERIF_TARGET_BASE:-/verif/harness}"
    (cd "$ROOT/harness" && cargo build --release --target-dir "$TGT_BASE/target" >/dev/null 2>&1) || { echo "INFRA: build failed"; exit 2; }
    if [ "$ID" = "C19" ]; then (cd "$ROOT/harness" && cargo build --release --no-default-features --target-dir "$TGT_BASE/target-sync" >/dev/null 2>&1); export VH_SYNC_BIN="$TGT_BASE/target-sync/release/vh"; fi
    "$TGT_BASE/target/release/vh" replay "$ID" "$P";;
esac
