#!/usr/bin/env python3
"""Rewrites the '## 8.' section of DESIGN.md from evidence/*.json (rule, assumptions, sub-checks)."""
import json, glob, os
root = os.path.dirname(os.path.dirname(os.path.abspath(__file__)))
table = json.load(open(os.path.join(root, "scripts", "checks_table.json")))["checks"]
out = ["## 8. Per-property checks as built (generated from the checks' own evidence)\n",
       "For each property: the deciding technique, the generated domain / oracle / non-triviality rule exactly as the",
       "check reports it in `evidence/<ID>.json` (`coverage.rule`), its assumptions, and the sub-checks with the number",
       "of cases of the last quick run (`VERIF_SEED=0`). Section 3 is the original plan these were built from.\n"]
for f in sorted(glob.glob(os.path.join(root, "evidence", "C*.json"))):
    e = json.load(open(f)); pid = e["property_id"]; c = e["coverage"]
    out.append(f"### {pid}\n")
    out.append(f"* **Technique**: {table[pid]['technique']}")
    out.append(f"* **Level**: {e['level']} — {table[pid]['text']}")
    out.append(f"* **Domain / oracle / non-trivial**: {c.get('rule','')}")
    if e.get("assumptions"):
        out.append("* **Assumes**: " + " | ".join(e["assumptions"]))
    subs = ", ".join(f"{k}={v}" for k, v in sorted(c.get("sub_checks", {}).items()))
    out.append(f"* **Sub-checks (cases, quick)**: {subs}; evaluations={c.get('evaluations')}, distinct non-trivial={c.get('distinct_nontrivial')}")
    if c.get("excluded_by_construction"):
        out.append("* **Excluded by construction (counted)**: " + ", ".join(f"{k}: {v}" for k, v in c["excluded_by_construction"].items()))
    if c.get("known_findings_reported"):
        out.append("* **Known findings exhibited by probes**: " + "; ".join(x.split(" :: ")[0] for x in c["known_findings_reported"]))
    out.append("")
sec = "\n".join(out) + "\n---------------------------------------------------------------------------------------------------\n\n"
p = os.path.join(root, "DESIGN.md"); s = open(p).read()
marker = "## 8. Per-property checks as built"
if marker in s:
    a = s.index(marker); b = s.index("## 9. Independently seeded changes")
    s = s[:a] + sec + s[b:]
else:
    b = s.index("## 9. Independently seeded changes")
    s = s[:b] + sec + s[b:]
open(p, "w").write(s); print("section 8 written")
