#!/bin/bash
# Runs the repository's own test suite with every verification guard OFF (we add none) and compares
# with /root/.vp/BASELINE.json: 224 stable passes, the 6 network/data-dependent tests may fail.
set -u
cd /repo || exit 2
export CARGO_NET_OFFLINE=true RUST_BACKTRACE=0
out=$(cargo test --workspace --no-fail-fast --offline 2>&1)
passed=$(echo "$out" | grep -E "^test result" | sed -E 's/.* ([0-9]+) passed.*/\1/' | paste -sd+ | bc)
failed=$(echo "$out" | grep -E "^test .* \.\.\. FAILED" | sed -E 's/^test (.*) \.\.\. FAILED/\1/' | sort -u)
allowed="check_live_from_filterlists check_live_specific_urls stable_serialization stable_serialization_through_load check_matching_equivalent check_matching_hostnames"
bad=0
for f in $failed; do
  case " $allowed " in *" $f "*) ;; *) echo "UNEXPECTED FAILURE: $f"; bad=1;; esac
done
# 224 stable tests + 5 doc tests
echo "passed=$passed failed=[$(echo $failed | tr '\n' ' ')]"
if [ "$bad" = 0 ] && [ "${passed:-0}" -ge 229 ]; then echo "BASELINE OK"; exit 0; else echo "BASELINE MISMATCH"; exit 1; fi
