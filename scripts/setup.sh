#!/bin/bash
# Builds the harness (both feature configurations) offline from files on disk.
set -eu
ROOT="$(cd "$(dirname "$0")/.." && pwd)"
export CARGO_NET_OFFLINE=true
cd "$ROOT/harness"
cargo build --release --target-dir /verif/harness/target
cargo build --release --no-default-features --target-dir /verif/harness/target-sync
# the libFuzzer targets (thorough tiers of C10/C11/C12/C20) are built on first use by scripts/fuzz_campaign.sh
echo "setup ok"
