#!/bin/bash
# usage: scripts/archive_seeded.sh <round> <ID>   (worktree /tmp/w<round>-<ID> with seeded_out/{patch,demo,meta}_{1,2})
# Re-confirms each change (verify_seeded.sh), archives it as seeded/R<round>-<ID>-<i>, removes the
# scratch worktree, then runs the owning quick check against it (seeded_trial.sh).
R="$1"; ID="$2"; W="/tmp/w$R-$ID"
cd "$(dirname "$0")/.."
extra=""
[ "$ID" = C20 ] && extra="--features content-blocking"
[ "$ID" = C19 ] && extra="--no-default-features --features embedded-domain-resolver,full-regex-handling"
for i in 1 2; do
  [ -f "$W/seeded_out/patch_$i.diff" ] || { echo "R$R $ID-$i: no patch"; continue; }
  r=$(timeout 1800 ./scripts/verify_seeded.sh "$W" $i $extra 2>&1 | grep -E "demo (passes|fails)|suite with" | tr '\n' ';')
  echo "R$R $ID-$i: $r"
  d="seeded/R$R-$ID-$i"; mkdir -p "$d"
  cp "$W/seeded_out/patch_$i.diff" "$d/patch.diff"; cp "$W/seeded_out/demo_$i.rs" "$d/demo.rs"; cp "$W/seeded_out/meta_$i.json" "$d/meta.json"
  echo "$r" > "$d/.verify"
done
git -C /repo worktree remove --force "$W"
for i in 1 2; do
  d="seeded/R$R-$ID-$i"; [ -f "$d/patch.diff" ] || continue
  TRIAL_TIMEOUT=900 ./scripts/seeded_trial.sh "$d" quick "$ID" 2>&1 | grep -E "^(CAUGHT|MISSED|INFRA|refusing|patch)" | cut -c1-420 | tee "$d/.trial"
done
