#!/usr/bin/env python3
"""Writes /verif/MANIFEST.json from the table below (single source of truth for the interface)."""
import json, os
ROOT = os.path.dirname(os.path.dirname(os.path.abspath(__file__)))
built = json.load(open(os.path.join(ROOT, "scripts", "checks_table.json")))
props = [json.loads(l) for l in open(os.path.join(ROOT, "properties.jsonl"))]
checks, na = [], []
for p in props:
    pid = p["id"]
    if pid in built["checks"]:
        c = built["checks"][pid]
        checks.append({
            "property_id": pid,
            "quick_cmd": f"scripts/check.sh {pid} quick",
            "thorough_cmd": f"scripts/check.sh {pid} thorough",
            "evidence_file": f"/verif/evidence/{pid}.json",
            "replay_cmd_template": f"scripts/replay.sh {pid} {{path}}",
            "engine": "vh",
            "level_claimed": {"category": c["category"], "text": c["text"], "design_ref": c.get("design_ref", f"DESIGN.md section 3 / {pid}")},
            "level_note": c["note"],
            "technique": c["technique"],
        })
    else:
        na.append({"property_id": pid, "reason": built["not_applicable"].get(pid, "check not built yet in this round (planned; see DESIGN.md section 3)")})
m = {
    "version": 1,
    "setup_cmd": "scripts/setup.sh",
    "hooks": {
        "guard": "adblock_verif",
        "enable": "no source hooks are used: the harness crate depends on /repo by path and only uses public API (features regex-debug-info and content-blocking are the library's own, additive features)",
        "baseline_off_cmd": "scripts/baseline.sh",
        "source_commits": [],
        "add_only": True,
    },
    "engines": [
        {"name": "vh", "path": "harness", "serves_properties": sorted(built["checks"].keys()),
         "kind_free_text": "Rust binary: proptest-driven choice-tape generators, reference models, differential/metamorphic/round-trip oracles, structural shrinking, replay files"},
    ] + built.get("extra_engines", []),
    "checks": checks,
    "notes": built.get("notes", ""),
    "not_applicable": na,
}
json.dump(m, open(os.path.join(ROOT, "MANIFEST.json"), "w"), indent=1)
print("MANIFEST.json written:", len(checks), "checks,", len(na), "not applicable")
