#!/usr/bin/env python3
"""Creates mutations/*.diff: small deliberate breakages of /repo (sensitivity trials of our own,
besides the independently seeded changes). Each entry: (name, property, file, old, new)."""
import subprocess, os, sys
M = [
 ("m02-dedup-on-mask", "C01", "src/network_filter_list.rs",
  "    match entry.binary_search_by(|f| f.partial_cmp(&v).unwrap_or(std::cmp::Ordering::Equal)) {\n        Ok(_pos) => (), // Can occur if the exact same rule is inserted twice. No reason to add anything.\n        Err(slot) => entry.insert(slot, v),\n    }",
  "    match entry.binary_search_by(|f| f.partial_cmp(&v).unwrap_or(std::cmp::Ordering::Equal)) {\n        Ok(_pos) => (), // Can occur if the exact same rule is inserted twice. No reason to add anything.\n        Err(slot) => {\n            if slot % 7 == 6 && entry.len() > 12 {\n                return;\n            }\n            entry.insert(slot, v)\n        }\n    }"),
 ("m03-no-source-hash-probe", "C01", "src/request.rs",
  "        self.source_hostname_hashes\n            .as_ref()\n            .into_iter()\n            .flatten()\n            .chain(self.get_tokens().into_iter())",
  "        self.source_hostname_hashes\n            .as_ref()\n            .into_iter()\n            .flatten()\n            .skip(1)\n            .chain(self.get_tokens().into_iter())"),
 ("m04-caret-class-loses-percent", "C02", "src/regex_manager.rs",
  'let repl = ANCHOR_RE.replace_all(&repl, "(?:[^\\\\w\\\\d\\\\._%-])$1");',
  'let repl = ANCHOR_RE.replace_all(&repl, "(?:[^\\\\w\\\\d\\\\._-])$1");'),
 ("m05-negated-types-no-implicit-all", "C03", "src/filters/network.rs",
  "            mask |= NetworkFilterMask::FROM_NETWORK_TYPES;\n        }\n        // If no positive types were set",
  "            mask |= NetworkFilterMask::FROM_NETWORK_TYPES & !NetworkFilterMask::FROM_WEBSOCKET;\n        }\n        // If no positive types were set"),
 ("m06-exclusion-does-not-win", "C03", "src/filters/network_matchers.rs",
  "                if source_hashes.iter().any(|h| {\n                    (h & excluded_domains_union == *h) && utils::bin_lookup(excluded_domains, *h)\n                }) {\n                    return false;\n                }",
  "                if source_hashes.iter().take(1).any(|h| {\n                    (h & excluded_domains_union == *h) && utils::bin_lookup(excluded_domains, *h)\n                }) {\n                    return false;\n                }"),
 ("m07-exceptions-before-important", "C04", "src/blocker.rs",
  "            // If matched an important filter, exceptions don't atter\n            Some(f) if f.is_important() => None,",
  "            // If matched an important filter, exceptions don't atter\n            Some(f) if f.is_important() && !f.is_regex() => None,"),
 ("m08-enable-tags-replaces", "C07", "src/blocker.rs",
  "            .collect::<HashSet<_>>()\n            .union(&self.tags_enabled)\n            .cloned()\n            .collect();\n        self.tags_with_set(tag_set);",
  "            .collect::<HashSet<_>>()\n            .union(&self.tags_enabled)\n            .filter(|t| t.len() < 6)\n            .cloned()\n            .collect();\n        self.tags_with_set(tag_set);"),
 ("m09-wire-swaps-domain-lists", "C08", "src/data_format/v0.rs",
  "            opt_domains: v.opt_domains,\n            opt_not_domains: v.opt_not_domains,",
  "            opt_domains: if v.opt_not_domains.is_some() && v.opt_domains.is_some() { v.opt_not_domains.clone() } else { v.opt_domains.clone() },\n            opt_not_domains: if v.opt_not_domains.is_some() && v.opt_domains.is_some() { v.opt_domains } else { v.opt_not_domains },"),
 ("m10-unstable-misc-selectors", "C09", "src/data_format/v0.rs",
  "    #[serde(serialize_with = \"stabilize_hashset_serialization\")]\n    misc_generic_selectors: &'a HashSet<String>,",
  "    misc_generic_selectors: &'a HashSet<String>,"),
 ("m11-party-by-hostname", "C12", "src/request.rs",
  "                let third_party = source_domain != parsed_url.domain();",
  "                let third_party = source_domain != parsed_url.domain() && !parsed_url.hostname().ends_with(source_domain);"),
 ("m12-preparsed-rsplit-scheme", "C12", "src/request.rs",
  "        let splitter = memchr::memchr(b':', url.as_bytes()).unwrap_or(0);",
  "        let splitter = memchr::memrchr(b':', url.as_bytes()).unwrap_or(0);"),
 ("m13-removeparam-prefix-match", "C14", "src/blocker.rs",
  "                            if !v.is_empty() && k == removeparam {",
  "                            if !v.is_empty() && (k == removeparam || (k.len() > 8 && k.starts_with(removeparam.as_str()))) {"),
 ("m14-csp-first-match-only", "C15", "src/blocker.rs",
  "        let filters = self\n            .csp\n            .check_all(request, &self.tags_enabled, &mut regex_manager);",
  "        let mut filters = self\n            .csp\n            .check_all(request, &self.tags_enabled, &mut regex_manager);\n        if filters.len() > 3 {\n            filters.truncate(3);\n        }"),
 ("m15-entity-last-label-only", "C16", "src/filters/cosmetic.rs",
  "        hashes.push(crate::utils::fast_hash(public_suffix));\n        hashes",
  "        if hashes.len() > 2 {\n            hashes.remove(0);\n        }\n        hashes.push(crate::utils::fast_hash(public_suffix));\n        hashes"),
 ("m16-id-rules-into-class-map", "C17", "src/cosmetic_filter_cache.rs",
  "                    if let Some(bucket) = self.complex_id_rules.get_mut(&id) {\n                        bucket.push(selector);",
  "                    if let Some(bucket) = self.complex_id_rules.get_mut(&id) {\n                        if bucket.len() < 2 {\n                            bucket.push(selector);\n                        }"),
 ("m17-permission-operands-swapped", "C18", "src/resources/mod.rs",
  "        !filter_mask.0 & self.0 == 0",
  "        !filter_mask.0 & self.0 & 0x7f == 0"),
 ("m18-ignore-rules-first", "C20", "src/lists.rs",
  "        other_rules.append(&mut ignore_previous_rules);\n\n        if add_fp_document_exception {",
  "        if other_rules.len() > 40 {\n            ignore_previous_rules.append(&mut other_rules);\n            other_rules = ignore_previous_rules;\n        } else {\n            other_rules.append(&mut ignore_previous_rules);\n        }\n\n        if add_fp_document_exception {"),
]
os.makedirs("/verif/mutations", exist_ok=True)
assert subprocess.run(["git","-C","/repo","status","--porcelain","--untracked-files=no"],capture_output=True,text=True).stdout.strip()=="", "repo not clean"
for name, prop, f, old, new in M:
    p = os.path.join("/repo", f); s = open(p).read()
    if old not in s:
        print("SKIP (anchor not found):", name); continue
    open(p, "w").write(s.replace(old, new, 1))
    d = subprocess.run(["git","-C","/repo","diff"],capture_output=True,text=True).stdout
    ok = subprocess.run(["cargo","build","--offline","--features","content-blocking"],cwd="/repo",capture_output=True,text=True)
    subprocess.run(["git","-C","/repo","checkout","-q","--","."])
    if ok.returncode != 0:
        print("SKIP (does not compile):", name, ok.stderr[-300:]); continue
    os.makedirs(f"/verif/mutations/{name}", exist_ok=True)
    open(f"/verif/mutations/{name}/patch.diff","w").write(d)
    open(f"/verif/mutations/{name}/property","w").write(prop)
    print("ok", name, prop)
