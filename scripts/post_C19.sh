#!/bin/bash
# thorough tier only: the C19 schedule stress once more under ThreadSanitizer (nightly, -Zbuild-std):
# catches data races that did not corrupt an answer in the plain run.
TIER="$1"
ROOT="$(cd "$(dirname "$0")/.." && pwd)"
[ "$TIER" = "thorough" ] || exit 0
export CARGO_NET_OFFLINE=true RUST_BACKTRACE=0
TGT="${VERIF_TARGET_BASE:-/verif/harness}/target-tsan"
cd "$ROOT/harness" || exit 2
log="$(mktemp)"
if ! RUSTFLAGS="-Zsanitizer=thread" cargo +nightly build --release -Zbuild-std --target x86_64-unknown-linux-gnu --no-default-features --target-dir "$TGT" >"$log" 2>&1; then
  echo "INFRA: TSan build failed"; tail -20 "$log"; rm -f "$log"; exit 2
fi
rm -f "$log"
N="${VERIF_TSAN_SCHEDULES:-120}"
out="$(mktemp)"
TSAN_OPTIONS="halt_on_error=1 exitcode=66 second_deadlock_stack=1" "$TGT/x86_64-unknown-linux-gnu/release/vh" worker c19-stress "${VERIF_SEED:-0}" "$N" >"$out" 2>&1
rc=$?
cd "$ROOT"
if grep -q "WARNING: ThreadSanitizer" "$out" || [ $rc -eq 66 ]; then
  mkdir -p replays/C19; dst="replays/C19/tsan-$(sha1sum "$out" | cut -c1-16).txt"; grep -v "^S " "$out" > "$dst"
  echo "--- ThreadSanitizer report"; grep -m1 -A6 "WARNING: ThreadSanitizer" "$out"
  echo "VIOLATION property=C19 replay=$ROOT/$dst"; rm -f "$out"; exit 1
fi
if grep -q "^F " "$out"; then
  mkdir -p replays/C19; dst="replays/C19/viol-tsan-$(sha1sum "$out" | cut -c1-16).json"; grep "^F " "$out" | head -1 | cut -c3- > "$dst"
  echo "--- schedule failure under TSan"; echo "VIOLATION property=C19 replay=$ROOT/$dst"; rm -f "$out"; exit 1
fi
if [ $rc -ne 0 ]; then echo "INFRA: TSan run exited with $rc"; tail -5 "$out"; rm -f "$out"; exit 2; fi
echo "tsan: schedules=$N data_races=0"
python3 - "$ROOT" "$N" <<'PY'
import json, sys, os
root, n = sys.argv[1], int(sys.argv[2])
ev = os.path.join(root, "evidence", "C19.json")
try:
    e = json.load(open(ev)); e["coverage"]["thread_sanitizer"] = {"schedules": n, "data_races": 0}
    json.dump(e, open(ev, "w"), indent=1)
except Exception as ex:
    print("evidence merge skipped:", ex)
PY
rm -f "$out"; exit 0
