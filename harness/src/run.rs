//! Seeded runner, counters, evidence writer, replay files, known-finding bookkeeping.
//!
//! Every random choice of every check comes from a proptest `TestRunner` seeded from
//! VERIF_SEED (and the shard index); nothing reads the clock or an OS RNG for a decision.

use proptest::strategy::{Strategy, ValueTree};
use proptest::test_runner::{Config, RngAlgorithm, TestRng, TestRunner};
use serde::{de::DeserializeOwned, Deserialize, Serialize};
use serde_json::{json, Value};
use std::cell::RefCell;
use std::collections::{BTreeMap, HashSet};
use std::panic::{catch_unwind, AssertUnwindSafe};
use std::path::PathBuf;
use std::time::Instant;

#[derive(Clone, Copy, PartialEq, Eq, Debug)]
pub enum Tier {
    Quick,
    Thorough,
}

impl Tier {
    pub fn name(&self) -> &'static str {
        match self {
            Tier::Quick => "quick",
            Tier::Thorough => "thorough",
        }
    }
    /// pick a work amount per tier
    pub fn pick<T>(&self, quick: T, thorough: T) -> T {
        match self {
            Tier::Quick => quick,
            Tier::Thorough => thorough,
        }
    }
}

pub fn verif_root() -> PathBuf {
    std::env::var("VERIF_ROOT")
        .map(PathBuf::from)
        .unwrap_or_else(|_| PathBuf::from("/verif"))
}

// ---------------------------------------------------------------------------------------------
// panic capture

thread_local! {
    static LAST_PANIC: RefCell<Option<String>> = RefCell::new(None);
}

pub fn install_panic_hook() {
    std::panic::set_hook(Box::new(|info| {
        let msg = if let Some(s) = info.payload().downcast_ref::<&str>() {
            s.to_string()
        } else if let Some(s) = info.payload().downcast_ref::<String>() {
            s.clone()
        } else {
            "<non-string panic>".to_string()
        };
        let loc = info
            .location()
            .map(|l| format!("{}:{}", l.file(), l.line()))
            .unwrap_or_default();
        LAST_PANIC.with(|p| *p.borrow_mut() = Some(format!("{} @ {}", msg, loc)));
    }));
}

/// Run `f`, turning a panic into `Err(description)`.
pub fn guard<T>(f: impl FnOnce() -> T) -> Result<T, String> {
    match catch_unwind(AssertUnwindSafe(f)) {
        Ok(v) => Ok(v),
        Err(_) => Err(LAST_PANIC
            .with(|p| p.borrow_mut().take())
            .unwrap_or_else(|| "panic".into())),
    }
}

// ---------------------------------------------------------------------------------------------
// per-case observations and per-run statistics

/// What one executed case reports about itself.
#[derive(Default)]
pub struct Obs {
    pub nontrivial: bool,
    pub labels: Vec<&'static str>,
    pub excluded: Vec<&'static str>,
    /// extra evaluations performed inside this case (e.g. number of requests checked)
    pub inner_evals: u64,
    /// hashes of distinct non-trivial inner inputs (enumerations inside one case)
    pub inner_nontrivial: Vec<u64>,
    pub inner_labels: Vec<(&'static str, u64)>,
    pub sample: Option<Value>,
}

impl Obs {
    pub fn label(&mut self, l: &'static str) {
        if !self.labels.contains(&l) {
            self.labels.push(l);
        }
    }
    pub fn exclude(&mut self, l: &'static str) {
        self.excluded.push(l);
    }
}

#[derive(Default, Serialize, Deserialize)]
pub struct Stats {
    pub cases: u64,
    pub inner_evals: u64,
    pub labels: BTreeMap<String, u64>,
    pub excluded: BTreeMap<String, u64>,
    pub nontrivial: HashSet<u64>,
    /// non-trivial cases seen after the distinct set reached NONTRIVIAL_CAP (not de-duplicated)
    #[serde(default)]
    pub nontrivial_beyond_cap: u64,
    pub samples: Vec<Value>,
    pub sub: BTreeMap<String, u64>,
}

/// The set of distinct non-trivial case hashes is exact up to this many entries (64 MiB of table);
/// beyond it `distinct_nontrivial` is a lower bound (thorough tiers of C10 see tens of millions).
pub const NONTRIVIAL_CAP: usize = 4_000_000;

impl Stats {
    pub fn merge(&mut self, o: Stats) {
        self.cases += o.cases;
        self.inner_evals += o.inner_evals;
        for (k, v) in o.labels {
            *self.labels.entry(k).or_insert(0) += v;
        }
        for (k, v) in o.excluded {
            *self.excluded.entry(k).or_insert(0) += v;
        }
        for (k, v) in o.sub {
            *self.sub.entry(k).or_insert(0) += v;
        }
        self.nontrivial_beyond_cap += o.nontrivial_beyond_cap;
        for h in o.nontrivial {
            self.note_nontrivial(h);
        }
        for s in o.samples {
            if self.samples.len() < 8 {
                self.samples.push(s);
            }
        }
    }

    /// true when `h` was not seen before (always false once the cap is reached)
    pub fn note_nontrivial(&mut self, h: u64) -> bool {
        if self.nontrivial.len() >= NONTRIVIAL_CAP {
            if !self.nontrivial.contains(&h) {
                self.nontrivial_beyond_cap += 1;
            }
            return false;
        }
        self.nontrivial.insert(h)
    }

    pub fn record<T: Serialize>(&mut self, sub: &str, case: &T, obs: Obs) {
        self.cases += 1;
        self.inner_evals += obs.inner_evals;
        *self.sub.entry(sub.to_string()).or_insert(0) += 1;
        for l in obs.labels {
            *self.labels.entry(format!("{}:{}", sub, l)).or_insert(0) += 1;
        }
        for l in obs.excluded {
            *self.excluded.entry(l.to_string()).or_insert(0) += 1;
        }
        for (l, n) in obs.inner_labels {
            *self.labels.entry(format!("{}:{}", sub, l)).or_insert(0) += n;
        }
        for h in obs.inner_nontrivial {
            self.note_nontrivial(h);
        }
        if let Some(sv) = obs.sample {
            if self.samples.len() < 3 {
                self.samples.push(json!({"check": sub, "inner_case": sv}));
            }
        }
        if obs.nontrivial {
            let txt = serde_json::to_string(case).unwrap_or_default();
            let h = seahash::hash(txt.as_bytes()) ^ seahash::hash(sub.as_bytes());
            if self.note_nontrivial(h) && self.samples.len() < 2 {
                self.samples.push(json!({"check": sub, "case": case}));
            }
        }
    }
}

#[derive(Clone, Debug, Serialize, Deserialize)]
pub struct Failure {
    pub check: String,
    pub case: Value,
    pub message: String,
}

// ---------------------------------------------------------------------------------------------
// a case type: serialisable, with structural shrinking candidates

pub trait Case: Clone + std::fmt::Debug + Serialize + DeserializeOwned + Send + 'static {
    /// Structurally smaller variants (drop a rule, drop a request, ...). Used for greedy
    /// minimisation after proptest's own shrinking of the choice tape.
    fn smaller(&self) -> Vec<Self> {
        vec![]
    }
}

/// Deterministic choice tape: all generators decode a `Vec<u16>` produced by proptest.
///
/// proptest draws tapes of every length up to the per-check maximum, so most tapes end before a
/// large case is fully decoded. Past its end a tape continues with a splitmix64 stream seeded by a
/// hash of its own contents: the decoded case stays a pure function of the proptest value (replay and
/// shrinking of the tape still work, structural minimisation does the rest), and long lists /
/// histories are random to their end instead of degenerating into "always the first choice".
pub struct Tape<'a> {
    d: &'a [u16],
    i: usize,
    /// Some(state) = continuation stream; None = zero-filled (only `zero_filled`)
    ext: Option<u64>,
}

impl<'a> Tape<'a> {
    pub fn new(d: &'a [u16]) -> Self {
        let mut h: u64 = 0x9e37_79b9_7f4a_7c15 ^ (d.len() as u64);
        for v in d {
            h = (h ^ (*v as u64)).wrapping_mul(0x1000_0000_01b3).rotate_left(23);
        }
        Tape { d, i: 0, ext: Some(h) }
    }
    /// every draw past the end is 0 (the first choice everywhere)
    pub fn zero_filled(d: &'a [u16]) -> Self {
        Tape { d, i: 0, ext: None }
    }
    pub fn next(&mut self) -> u16 {
        let v = match self.d.get(self.i) {
            Some(v) => *v,
            None => match &mut self.ext {
                None => 0,
                Some(st) => {
                    // splitmix64
                    *st = st.wrapping_add(0x9e37_79b9_7f4a_7c15);
                    let mut z = *st;
                    z = (z ^ (z >> 30)).wrapping_mul(0xbf58_476d_1ce4_e5b9);
                    z = (z ^ (z >> 27)).wrapping_mul(0x94d0_49bb_1331_11eb);
                    ((z ^ (z >> 31)) >> 48) as u16
                }
            },
        };
        self.i += 1;
        v
    }
    /// monotone map onto 0..n
    pub fn pick(&mut self, n: usize) -> usize {
        if n <= 1 {
            return 0;
        }
        ((self.next() as usize) * n) >> 16
    }
    pub fn range(&mut self, lo: usize, hi_incl: usize) -> usize {
        lo + self.pick(hi_incl - lo + 1)
    }
    /// true with probability num/den
    pub fn chance(&mut self, num: usize, den: usize) -> bool {
        self.pick(den) >= den - num
    }
    pub fn choose<T: Copy>(&mut self, xs: &[T]) -> T {
        xs[self.pick(xs.len())]
    }
    pub fn choose_ref<'b, T>(&mut self, xs: &'b [T]) -> &'b T {
        &xs[self.pick(xs.len())]
    }
    pub fn exhausted(&self) -> bool {
        self.i >= self.d.len()
    }
    pub fn u64(&mut self) -> u64 {
        (self.next() as u64) << 48 | (self.next() as u64) << 32 | (self.next() as u64) << 16 | self.next() as u64
    }
}

pub fn tape_strategy(max_len: usize) -> impl Strategy<Value = Vec<u16>> {
    proptest::collection::vec(proptest::num::u16::ANY, 0..max_len)
}

fn rng_for(seed: u64, salt: u64) -> TestRng {
    let mut bytes = [0u8; 32];
    let a = seahash::hash(&seed.to_le_bytes());
    let b = seahash::hash(&salt.to_le_bytes()) ^ a.rotate_left(17);
    let c = seahash::hash(&(a ^ b).to_le_bytes());
    let d = seahash::hash(&(b.wrapping_add(c)).to_le_bytes());
    bytes[0..8].copy_from_slice(&a.to_le_bytes());
    bytes[8..16].copy_from_slice(&b.to_le_bytes());
    bytes[16..24].copy_from_slice(&c.to_le_bytes());
    bytes[24..32].copy_from_slice(&d.to_le_bytes());
    TestRng::from_seed(RngAlgorithm::ChaCha, &bytes)
}

fn salt_of(s: &str) -> u64 {
    seahash::hash(s.as_bytes())
}

/// Run one shard: `cases` generated cases of `decode(tape)` through `check`.
/// Returns the (shrunk, minimised) failure if any.
pub fn run_shard<C: Case>(
    sub: &str,
    seed: u64,
    shard: u64,
    cases: u32,
    tape_len: usize,
    decode: &(dyn Fn(&mut Tape) -> C + Sync),
    check: &(dyn Fn(&C, &mut Obs) -> Result<(), String> + Sync),
    stats: &mut Stats,
) -> Option<Failure> {
    run_shard_opt(sub, seed, shard, cases, tape_len, decode, check, stats, false)
}

/// A check may answer `Err("REPLAY_CASE:<json of a smaller case>\n<message>")` to substitute the
/// failing case by a more specific one (e.g. the single corrupted input out of an enumeration).
fn split_replay_case<C: Case>(case: C, msg: String) -> (C, String) {
    if let Some(rest) = msg.strip_prefix("REPLAY_CASE:") {
        if let Some((js, m)) = rest.split_once('\n') {
            if let Ok(c) = serde_json::from_str::<C>(js) {
                return (c, m.to_string());
            }
        }
    }
    (case, msg)
}

pub fn run_shard_opt<C: Case>(
    sub: &str,
    seed: u64,
    shard: u64,
    cases: u32,
    tape_len: usize,
    decode: &(dyn Fn(&mut Tape) -> C + Sync),
    check: &(dyn Fn(&C, &mut Obs) -> Result<(), String> + Sync),
    stats: &mut Stats,
    announce: bool,
) -> Option<Failure> {
    let config = Config {
        cases,
        failure_persistence: None,
        max_shrink_iters: 300,
        max_local_rejects: 1_000_000,
        max_global_rejects: 1_000_000,
        ..Config::default()
    };
    let mut runner = TestRunner::new_with_rng(
        config,
        rng_for(seed, salt_of(sub) ^ shard.wrapping_mul(0x9E37_79B9_7F4A_7C15)),
    );
    let strat = tape_strategy(tape_len);
    let mut failure: Option<(C, String)> = None;
    for _ in 0..cases {
        let tree = match strat.new_tree(&mut runner) {
            Ok(t) => t,
            Err(_) => continue,
        };
        let tape = tree.current();
        let case = decode(&mut Tape::new(&tape));
        if announce {
            println!("C {}", serde_json::to_string(&case).unwrap_or_default());
        }
        let mut obs = Obs::default();
        let r = guard(|| check(&case, &mut obs)).unwrap_or_else(|p| Err(format!("panic: {}", p)));
        match r {
            Ok(()) => stats.record(sub, &case, obs),
            Err(msg) => {
                stats.record(sub, &case, obs);
                if msg.starts_with("REPLAY_CASE:") {
                    let (c2, m2) = split_replay_case(case, msg);
                    failure = Some(minimise((c2, m2), check));
                    break;
                }
                // shrink the tape with proptest's own value tree, then minimise structurally
                let mut tree = tree;
                let mut best: (C, String) = (case, msg);
                let mut iters = 0;
                // shrinking effort is bounded by evaluations AND by wall time (expensive cases);
                // the time bound only limits how small the reported case gets, never the verdict
                let shrink_start = Instant::now();
                while iters < 300 && shrink_start.elapsed().as_secs() < 20 && tree.simplify() {
                    iters += 1;
                    loop {
                        let t = tree.current();
                        let c = decode(&mut Tape::new(&t));
                        let mut o = Obs::default();
                        let rr = guard(|| check(&c, &mut o))
                            .unwrap_or_else(|p| Err(format!("panic: {}", p)));
                        match rr {
                            Err(m) => {
                                best = (c, m);
                                break;
                            }
                            Ok(()) => {
                                iters += 1;
                                if iters >= 300 || shrink_start.elapsed().as_secs() >= 20 || !tree.complicate() {
                                    break;
                                }
                            }
                        }
                    }
                }
                failure = Some(minimise(best, check));
                break;
            }
        }
    }
    failure.map(|(c, m)| Failure {
        check: sub.to_string(),
        case: serde_json::to_value(&c).unwrap_or(Value::Null),
        message: m,
    })
}

pub fn minimise<C: Case>(
    start: (C, String),
    check: &(dyn Fn(&C, &mut Obs) -> Result<(), String> + Sync),
) -> (C, String) {
    let mut best = start;
    let mut budget = 3000;
    let t0 = Instant::now();
    'outer: loop {
        for cand in best.0.smaller() {
            if budget == 0 || t0.elapsed().as_secs() >= 40 {
                break 'outer;
            }
            budget -= 1;
            let mut o = Obs::default();
            let r = guard(|| check(&cand, &mut o)).unwrap_or_else(|p| Err(format!("panic: {}", p)));
            if let Err(m) = r {
                best = split_replay_case(cand, m);
                continue 'outer;
            }
        }
        break;
    }
    best
}

/// Run `total_cases` over `threads` shards in parallel; deterministic for a given seed.
pub fn run_sharded<C: Case>(
    ctx: &mut Ctx,
    sub: &str,
    total_cases: u64,
    tape_len: usize,
    decode: &(dyn Fn(&mut Tape) -> C + Sync),
    check: &(dyn Fn(&C, &mut Obs) -> Result<(), String> + Sync),
) {
    let threads = ctx.threads.max(1) as u64;
    let per = ((total_cases + threads - 1) / threads).max(1) as u32;
    let seed = ctx.seed;
    let mut results: Vec<(Stats, Option<Failure>)> = Vec::new();
    std::thread::scope(|s| {
        let mut hs = vec![];
        for shard in 0..threads {
            hs.push(s.spawn(move || {
                install_panic_hook();
                let mut st = Stats::default();
                let f = run_shard(sub, seed, shard, per, tape_len, decode, check, &mut st);
                (st, f)
            }));
        }
        for h in hs {
            match h.join() {
                Ok(r) => results.push(r),
                Err(_) => {
                    eprintln!("INFRA: worker thread died");
                    std::process::exit(2);
                }
            }
        }
    });
    for (st, f) in results {
        ctx.stats.merge(st);
        if let Some(f) = f {
            ctx.fail(f);
        }
    }
}

/// Run a single explicit case (regression replays, exhaustive enumerations).
pub fn run_one<C: Case>(
    ctx: &mut Ctx,
    sub: &str,
    case: &C,
    check: &(dyn Fn(&C, &mut Obs) -> Result<(), String> + Sync),
) -> bool {
    let mut obs = Obs::default();
    let r = guard(|| check(case, &mut obs)).unwrap_or_else(|p| Err(format!("panic: {}", p)));
    ctx.stats.record(sub, case, obs);
    match r {
        Ok(()) => true,
        Err(m) => {
            let (c, m) = minimise(split_replay_case(case.clone(), m), check);
            ctx.fail(Failure {
                check: sub.to_string(),
                case: serde_json::to_value(&c).unwrap_or(Value::Null),
                message: m,
            });
            false
        }
    }
}

// ---------------------------------------------------------------------------------------------
// known findings

#[derive(Clone, Debug, Serialize, Deserialize)]
pub struct Finding {
    pub id: String,
    pub property: String,
    /// "open" or "fixed"
    pub status: String,
    pub what: String,
    #[serde(default)]
    pub commit: Option<String>,
    #[serde(default)]
    pub probe: Value,
    #[serde(default)]
    pub line: Option<String>,
}

#[derive(Clone, Debug, Serialize, Deserialize, Default)]
pub struct Findings {
    pub findings: Vec<Finding>,
}

pub fn load_findings() -> Findings {
    let p = verif_root().join("known_findings.json");
    match std::fs::read_to_string(&p) {
        Ok(s) => serde_json::from_str(&s).unwrap_or_else(|e| {
            eprintln!("INFRA: known_findings.json unreadable: {}", e);
            std::process::exit(2);
        }),
        Err(_) => Findings::default(),
    }
}

// ---------------------------------------------------------------------------------------------
// context of one check run

pub struct Ctx {
    pub id: &'static str,
    pub tier: Tier,
    pub seed: u64,
    pub threads: usize,
    pub stats: Stats,
    pub failures: Vec<Failure>,
    pub known_printed: Vec<String>,
    pub findings: Findings,
    pub start: Instant,
    pub level: &'static str,
    pub rule: String,
    pub assumptions: Vec<String>,
    pub exhaustive: bool,
    pub extra: BTreeMap<String, Value>,
    pub replay_mode: bool,
}

impl Ctx {
    pub fn new(id: &'static str, tier: Tier, seed: u64) -> Self {
        let threads = std::env::var("VERIF_THREADS")
            .ok()
            .and_then(|s| s.parse().ok())
            .unwrap_or_else(|| {
                std::thread::available_parallelism()
                    .map(|n| n.get())
                    .unwrap_or(4)
                    .min(16)
            });
        Ctx {
            id,
            tier,
            seed,
            threads,
            stats: Stats::default(),
            failures: vec![],
            known_printed: vec![],
            findings: load_findings(),
            start: Instant::now(),
            level: "exploration",
            rule: String::new(),
            assumptions: vec![],
            exhaustive: false,
            extra: BTreeMap::new(),
            replay_mode: false,
        }
    }

    pub fn is_open(&self, finding_id: &str) -> bool {
        self.findings
            .findings
            .iter()
            .any(|f| f.id == finding_id && f.status == "open")
    }

    pub fn fail(&mut self, f: Failure) {
        // keep at most one failure per sub-check
        if self.failures.iter().any(|g| g.check == f.check) {
            return;
        }
        self.failures.push(f);
    }

    /// Run the deterministic probe of a (possibly) known finding.
    /// `result` is Err(description) when the probe exhibits the defect.
    pub fn probe(&mut self, finding_id: &str, probe_case: Value, result: Result<(), String>) {
        *self.stats.sub.entry("probes".into()).or_insert(0) += 1;
        let listed = self
            .findings
            .findings
            .iter()
            .find(|f| f.id == finding_id)
            .cloned();
        match (result, listed) {
            (Err(msg), Some(f)) if f.status == "open" => {
                let line = format!("KNOWN-FINDING: property={} {} [{}]", self.id, f.what, f.id);
                println!("{}", line);
                self.known_printed.push(format!("{} :: observed: {}", f.id, msg));
            }
            (Err(msg), _) => {
                // not listed, or listed as fixed: it is a violation (again)
                self.fail(Failure {
                    check: format!("probe:{}", finding_id),
                    case: probe_case,
                    message: msg,
                });
            }
            (Ok(()), Some(f)) if f.status == "open" => {
                self.extra.insert(
                    format!("stale_finding:{}", f.id),
                    json!("probe no longer exhibits the recorded defect"),
                );
            }
            (Ok(()), _) => {}
        }
    }

    pub fn finish(mut self) -> i32 {
        let root = verif_root();
        let wall = self.start.elapsed().as_secs_f64();
        let mut viol_paths = vec![];
        if !self.replay_mode {
            for f in &self.failures {
                let dir = root.join("replays").join(self.id);
                let _ = std::fs::create_dir_all(&dir);
                let txt = serde_json::to_string_pretty(&json!({
                    "property": self.id, "check": f.check, "case": f.case, "message": f.message
                }))
                .unwrap();
                let h = seahash::hash(txt.as_bytes());
                let p = dir.join(format!("viol-{:016x}.json", h));
                if let Err(e) = std::fs::write(&p, &txt) {
                    eprintln!("INFRA: cannot write replay {}: {}", p.display(), e);
                    return 2;
                }
                viol_paths.push(p);
            }
        }
        for (f, p) in self.failures.iter().zip(viol_paths.iter()) {
            println!("--- violation in {} / {}", self.id, f.check);
            println!("{}", f.message);
            println!(
                "case: {}",
                serde_json::to_string(&f.case).unwrap_or_default()
            );
            println!("VIOLATION property={} replay={}", self.id, p.display());
        }
        if self.replay_mode {
            for f in &self.failures {
                println!("--- replay fails: {} / {}\n{}", self.id, f.check, f.message);
                println!("VIOLATION property={} replay=<given>", self.id);
            }
        }
        let distinct = self.stats.nontrivial.len() as u64;
        let evals = self.stats.cases + self.stats.inner_evals;
        let mut coverage = serde_json::Map::new();
        coverage.insert("evaluations".into(), json!(evals));
        coverage.insert("cases".into(), json!(self.stats.cases));
        coverage.insert("distinct_nontrivial".into(), json!(distinct));
        if self.stats.nontrivial_beyond_cap > 0 {
            coverage.insert("distinct_nontrivial_note".into(), json!(format!("lower bound: the exact set is capped at {} entries; {} further non-trivial evaluations were seen after the cap (not de-duplicated)", NONTRIVIAL_CAP, self.stats.nontrivial_beyond_cap)));
        }
        coverage.insert("rule".into(), json!(self.rule));
        coverage.insert("samples".into(), json!(self.stats.samples));
        coverage.insert("exhaustive".into(), json!(self.exhaustive));
        coverage.insert("labels".into(), json!(self.stats.labels));
        coverage.insert("sub_checks".into(), json!(self.stats.sub));
        coverage.insert("excluded_by_construction".into(), json!(self.stats.excluded));
        coverage.insert("known_findings_reported".into(), json!(self.known_printed));
        coverage.insert("threads".into(), json!(self.threads));
        for (k, v) in std::mem::take(&mut self.extra) {
            coverage.insert(k, v);
        }
        let ev = json!({
            "property_id": self.id,
            "tier": self.tier.name(),
            "seed": self.seed,
            "level": self.level,
            "coverage": Value::Object(coverage),
            "assumptions": self.assumptions,
            "wall_s": wall,
            "violations": self.failures.len(),
        });
        if !self.replay_mode {
            let dir = root.join("evidence");
            let _ = std::fs::create_dir_all(&dir);
            let p = dir.join(format!("{}.json", self.id));
            if let Err(e) = std::fs::write(&p, serde_json::to_string_pretty(&ev).unwrap()) {
                eprintln!("INFRA: cannot write evidence {}: {}", p.display(), e);
                return 2;
            }
        }
        println!(
            "{} {} seed={} cases={} evaluations={} distinct_nontrivial={} violations={} known_findings={} wall={:.1}s",
            self.id,
            self.tier.name(),
            self.seed,
            self.stats.cases,
            evals,
            distinct,
            self.failures.len(),
            self.known_printed.len(),
            wall
        );
        if self.failures.is_empty() {
            0
        } else {
            1
        }
    }
}

/// Load committed regression cases `replays/<id>/reg-*.json` for sub-check `sub`.
pub fn regression_cases<C: Case>(id: &str, sub: &str) -> Vec<(String, C)> {
    let dir = verif_root().join("replays").join(id);
    let mut out = vec![];
    let mut names: Vec<_> = match std::fs::read_dir(&dir) {
        Ok(rd) => rd.filter_map(|e| e.ok()).map(|e| e.path()).collect(),
        Err(_) => return out,
    };
    names.sort();
    for p in names {
        let name = p.file_name().unwrap().to_string_lossy().to_string();
        if !name.starts_with("reg-") || !name.ends_with(".json") {
            continue;
        }
        let Ok(txt) = std::fs::read_to_string(&p) else { continue };
        let Ok(v) = serde_json::from_str::<Value>(&txt) else { continue };
        if v.get("check").and_then(|c| c.as_str()) != Some(sub) {
            continue;
        }
        match serde_json::from_value::<C>(v.get("case").cloned().unwrap_or(Value::Null)) {
            Ok(c) => out.push((name, c)),
            Err(e) => {
                eprintln!("INFRA: regression file {} does not decode: {}", p.display(), e);
                std::process::exit(2);
            }
        }
    }
    out
}

/// Helper used by every property module: regression replays first, then generated cases.
pub fn drive<C: Case>(
    ctx: &mut Ctx,
    sub: &str,
    total_cases: u64,
    tape_len: usize,
    decode: &(dyn Fn(&mut Tape) -> C + Sync),
    check: &(dyn Fn(&C, &mut Obs) -> Result<(), String> + Sync),
) {
    for (_name, c) in regression_cases::<C>(ctx.id, sub) {
        run_one(ctx, sub, &c, check);
        *ctx.stats.sub.entry("regression_replays".into()).or_insert(0) += 1;
    }
    run_sharded(ctx, sub, total_cases, tape_len, decode, check);
}

/// Replay a single file through `check` (no generator involved).
pub fn replay_file<C: Case>(
    ctx: &mut Ctx,
    v: &Value,
    check: &(dyn Fn(&C, &mut Obs) -> Result<(), String> + Sync),
) {
    let sub = v.get("check").and_then(|c| c.as_str()).unwrap_or("?").to_string();
    match serde_json::from_value::<C>(v.get("case").cloned().unwrap_or(Value::Null)) {
        Ok(c) => {
            let mut obs = Obs::default();
            let r = guard(|| check(&c, &mut obs)).unwrap_or_else(|p| Err(format!("panic: {}", p)));
            ctx.stats.record(&sub, &c, obs);
            match r {
                Ok(()) => println!("replay passes: {} / {}", ctx.id, sub),
                Err(m) => ctx.fail(Failure {
                    check: sub,
                    case: v.get("case").cloned().unwrap_or(Value::Null),
                    message: m,
                }),
            }
        }
        Err(e) => {
            eprintln!("INFRA: replay file does not decode for {} / {}: {}", ctx.id, sub, e);
            std::process::exit(2);
        }
    }
}

// ---------------------------------------------------------------------------------------------
// process isolation: shards run in child processes so that aborts, stack overflows and refused
// giant allocations are observed instead of killing the check

/// Child side: run one shard, announcing each case before it is executed.
pub fn worker_shard<C: Case>(
    sub: &str,
    seed: u64,
    shard: u64,
    cases: u32,
    tape_len: usize,
    decode: &(dyn Fn(&mut Tape) -> C + Sync),
    check: &(dyn Fn(&C, &mut Obs) -> Result<(), String> + Sync),
) -> i32 {
    let mut st = Stats::default();
    let f = run_shard_opt(sub, seed, shard, cases, tape_len, decode, check, &mut st, true);
    println!("S {}", serde_json::to_string(&st).unwrap_or_default());
    if let Some(f) = f {
        println!("F {}", serde_json::to_string(&f).unwrap_or_default());
    }
    0
}

/// Child side: run one explicit case read from stdin; prints "OK" or "F <failure json>".
pub fn worker_one<C: Case>(sub: &str, check: &(dyn Fn(&C, &mut Obs) -> Result<(), String> + Sync)) -> i32 {
    let mut s = String::new();
    if std::io::Read::read_to_string(&mut std::io::stdin(), &mut s).is_err() {
        return 2;
    }
    let Ok(c) = serde_json::from_str::<C>(&s) else { return 2 };
    let mut obs = Obs::default();
    let r = guard(|| check(&c, &mut obs)).unwrap_or_else(|p| Err(format!("panic: {}", p)));
    match r {
        Ok(()) => println!("OK"),
        Err(m) => {
            let (c2, m2) = split_replay_case(c, m);
            println!(
                "F {}",
                serde_json::to_string(&Failure { check: sub.to_string(), case: serde_json::to_value(&c2).unwrap_or(Value::Null), message: m2 }).unwrap_or_default()
            );
        }
    }
    0
}

pub struct ChildOutcome {
    pub lines: Vec<String>,
    pub status: std::process::ExitStatus,
}

pub fn run_child(args: &[String], stdin_data: Option<&str>, env: &[(&str, String)]) -> ChildOutcome {
    let exe = std::env::current_exe().expect("current_exe");
    run_child_exe(&exe.to_string_lossy(), args, stdin_data, env)
}

pub fn run_child_exe(exe: &str, args: &[String], stdin_data: Option<&str>, env: &[(&str, String)]) -> ChildOutcome {
    use std::io::Write;
    use std::process::{Command, Stdio};
    let mut cmd = Command::new(exe);
    cmd.args(args).stdin(Stdio::piped()).stdout(Stdio::piped()).stderr(Stdio::null());
    for (k, v) in env {
        cmd.env(k, v);
    }
    let mut ch = match cmd.spawn() {
        Ok(c) => c,
        Err(e) => {
            eprintln!("INFRA: cannot spawn worker: {}", e);
            std::process::exit(2);
        }
    };
    let mut stdin = ch.stdin.take().unwrap();
    let data = stdin_data.map(|s| s.to_string());
    let h = std::thread::spawn(move || {
        if let Some(d) = data {
            let _ = stdin.write_all(d.as_bytes());
        }
    });
    let out = ch.wait_with_output();
    let _ = h.join();
    match out {
        Ok(o) => ChildOutcome { lines: String::from_utf8_lossy(&o.stdout).lines().map(|s| s.to_string()).collect(), status: o.status },
        Err(e) => {
            eprintln!("INFRA: worker wait failed: {}", e);
            std::process::exit(2);
        }
    }
}

/// Parent side. `locate` is called when a child died while running `case_json`; it must return the
/// most specific failing case it can find (by running further children) or None when the death
/// does not reproduce (then the run is inconclusive => infrastructure exit).
pub fn run_isolated(
    ctx: &mut Ctx,
    sub: &str,
    total_cases: u64,
    locate: &dyn Fn(&str) -> Option<Failure>,
) {
    let threads = ctx.threads.max(1) as u64;
    let per = ((total_cases + threads - 1) / threads).max(1);
    let mut handles = vec![];
    for shard in 0..threads {
        let args: Vec<String> = vec![
            "worker".into(), "shard".into(), ctx.id.to_string(), sub.to_string(),
            ctx.seed.to_string(), shard.to_string(), per.to_string(), ctx.tier.name().to_string(),
        ];
        handles.push(std::thread::spawn(move || run_child(&args, None, &[])));
    }
    for h in handles {
        let out = match h.join() {
            Ok(o) => o,
            Err(_) => {
                eprintln!("INFRA: worker thread died");
                std::process::exit(2);
            }
        };
        let mut got_stats = false;
        for l in &out.lines {
            if let Some(js) = l.strip_prefix("S ") {
                if let Ok(st) = serde_json::from_str::<Stats>(js) {
                    ctx.stats.merge(st);
                    got_stats = true;
                }
            } else if let Some(js) = l.strip_prefix("F ") {
                if let Ok(f) = serde_json::from_str::<Failure>(js) {
                    ctx.fail(f);
                }
            }
        }
        if !got_stats {
            // the child died: the last announced case is the one in flight
            let last = out.lines.iter().rev().find_map(|l| l.strip_prefix("C "));
            match last {
                Some(case_json) => match locate(case_json) {
                    Some(f) => ctx.fail(f),
                    None => {
                        eprintln!("INFRA: a worker died ({:?}) but the death did not reproduce on its last case", out.status);
                        std::process::exit(2);
                    }
                },
                None => {
                    eprintln!("INFRA: a worker died ({:?}) before announcing any case", out.status);
                    std::process::exit(2);
                }
            }
        }
    }
}

/// Exhaustive enumerations: item `i` of `n` is built by `make(i)`; indices are dealt round-robin
/// to the worker threads. Stops at the first failure per thread.
pub fn run_indexed<C: Case>(
    ctx: &mut Ctx,
    sub: &str,
    n: u64,
    make: &(dyn Fn(u64) -> Option<C> + Sync),
    check: &(dyn Fn(&C, &mut Obs) -> Result<(), String> + Sync),
) {
    let threads = ctx.threads.max(1) as u64;
    let mut results: Vec<(Stats, Option<Failure>)> = Vec::new();
    std::thread::scope(|s| {
        let mut hs = vec![];
        for t in 0..threads {
            hs.push(s.spawn(move || {
                install_panic_hook();
                let mut st = Stats::default();
                let mut fail = None;
                let mut i = t;
                while i < n {
                    if let Some(case) = make(i) {
                        let mut obs = Obs::default();
                        let r = guard(|| check(&case, &mut obs)).unwrap_or_else(|p| Err(format!("panic: {}", p)));
                        st.record(sub, &case, obs);
                        if let Err(m) = r {
                            let (c, m) = minimise(split_replay_case(case, m), check);
                            fail = Some(Failure { check: sub.to_string(), case: serde_json::to_value(&c).unwrap_or(Value::Null), message: m });
                            break;
                        }
                    }
                    i += threads;
                }
                (st, fail)
            }));
        }
        for h in hs {
            match h.join() {
                Ok(r) => results.push(r),
                Err(_) => {
                    eprintln!("INFRA: worker thread died");
                    std::process::exit(2);
                }
            }
        }
    });
    for (st, f) in results {
        ctx.stats.merge(st);
        if let Some(f) = f {
            ctx.fail(f);
        }
    }
}
