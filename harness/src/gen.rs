//! Shared generators. Everything is decoded from a proptest-produced choice tape.

use crate::run::Tape;
use serde::{Deserialize, Serialize};

pub const WORDS: &[&str] = &[
    "ad", "ads", "adv", "advert", "advice", "load", "loads", "foo", "bar", "banner", "track",
    "tracker", "pixel", "img", "js", "css", "api", "v1", "cdn", "static", "x", "a", "b", "ab",
    "ba", "analytics", "click", "id", "utm", "ref", "page", "news", "video", "bads", "adserver",
    "foobar", "barfoo", "xads", "q", "s", "1", "22", "333",
];
pub const WORDS_MIXED: &[&str] = &["AD", "Ads", "Banner", "FOO", "Bar", "Track", "IMG"];
pub const SEPS: &[&str] = &[
    "/", "/", "/", ".", "-", "_", "~", "=", "&", "?", ";", ":", ",", "@", "!", "+", "(", ")",
    "*", "%20", "%2F", "//", "'", "|",
];
pub const SUFFIXES: &[&str] = &[
    "com", "net", "org", "de", "io", "co.uk", "com.au", "github.io", "blogspot.com",
];
pub const HOST_LABELS: &[&str] = &[
    "ad", "ads", "adv", "track", "foo", "bar", "cdn", "img", "news", "a", "b", "x", "example",
    "site", "pixel", "xads", "bads", "www", "static", "api",
];
pub const SCHEMES: &[&str] = &["https", "https", "https", "http", "http", "ws", "wss"];
pub const REQ_TYPES: &[&str] = &[
    "script", "image", "stylesheet", "xmlhttprequest", "xhr", "document", "main_frame",
    "subdocument", "sub_frame", "font", "media", "object", "object_subrequest", "ping", "beacon",
    "websocket", "other", "csp_report", "imageset", "speculative", "web_manifest", "xbl",
    "xml_dtd", "xslt", "fetch", "",
];
pub const TAGS: &[&str] = &["t1", "t2", "t3"];
pub const REDIRECT_NAMES: &[&str] = &[
    "noop.js", "noopjs", "1x1.gif", "1x1-transparent.gif", "noop.txt", "tmpl.js", "fn.js",
    "perm.js", "missing.js", "noop.html", "blank.html", "extra.gif",
];
pub const CSP_VALUES: &[&str] = &[
    "script-src 'none'", "script-src 'self'", "img-src 'none'", "worker-src 'none'",
    "default-src 'self'", "frame-src 'none'",
];
pub const PARAMS: &[&str] = &["utm", "id", "ref", "utm_source", "fbclid", "q", "a", "b", "page", "UTM"];

#[derive(Clone, Debug, Serialize, Deserialize, PartialEq, Eq, Hash)]
pub struct ReqSpec {
    pub url: String,
    pub source: String,
    pub rtype: String,
}

pub fn word(t: &mut Tape) -> String {
    if t.chance(1, 10) {
        t.choose(WORDS_MIXED).to_string()
    } else {
        t.choose(WORDS).to_string()
    }
}

/// host with a known registrable domain: returns (host, registrable_domain)
pub fn host(t: &mut Tape) -> (String, String) {
    let suffix = t.choose(SUFFIXES);
    let main = t.choose(HOST_LABELS);
    let reg = format!("{}.{}", main, suffix);
    let depth = [0usize, 0, 1, 1, 2, 3][t.pick(6)];
    let mut h = reg.clone();
    for _ in 0..depth {
        h = format!("{}.{}", t.choose(HOST_LABELS), h);
    }
    (h, reg)
}

pub fn path(t: &mut Tape) -> String {
    let mut s = String::new();
    let segs = t.pick(5);
    for _ in 0..segs {
        s.push('/');
        let parts = 1 + t.pick(3);
        for j in 0..parts {
            if j > 0 {
                s.push_str(t.choose(SEPS));
            }
            s.push_str(&word(t));
        }
    }
    if s.is_empty() || t.chance(1, 8) {
        s.push('/');
    }
    if t.chance(1, 6) {
        s.push_str(t.choose(&[".js", ".gif", ".png", ".html", ".css"]));
    }
    s
}

pub fn query(t: &mut Tape) -> String {
    let n = 1 + t.pick(4);
    let mut parts = vec![];
    for _ in 0..n {
        let k = match t.pick(8) {
            0 => String::new(),
            1 => word(t),
            _ => t.choose(PARAMS).to_string(),
        };
        let p = match t.pick(8) {
            0 => k,
            1 => format!("{}=", k),
            2 => format!("{}={}={}", k, word(t), word(t)),
            _ => format!("{}={}", k, word(t)),
        };
        parts.push(p);
    }
    let mut q = parts.join("&");
    if t.chance(1, 10) {
        q.push('&');
    }
    if t.chance(1, 12) {
        q = q.replacen('&', "&&", 1);
    }
    q
}

#[derive(Clone, Debug, Serialize, Deserialize)]
pub struct UrlParts {
    pub scheme: String,
    pub host: String,
    pub reg: String,
    pub port: Option<u16>,
    pub path: String,
    pub query: Option<String>,
    pub fragment: Option<String>,
}

impl UrlParts {
    pub fn render(&self) -> String {
        let mut s = format!("{}://{}", self.scheme, self.host);
        if let Some(p) = self.port {
            s.push_str(&format!(":{}", p));
        }
        s.push_str(&self.path);
        if let Some(q) = &self.query {
            s.push('?');
            s.push_str(q);
        }
        if let Some(f) = &self.fragment {
            s.push('#');
            s.push_str(f);
        }
        s
    }
}

pub fn url_parts(t: &mut Tape) -> UrlParts {
    let scheme = t.choose(SCHEMES).to_string();
    let (host, reg) = host(t);
    let port = if t.chance(1, 12) { Some([80u16, 8080, 443, 8443][t.pick(4)]) } else { None };
    let path = path(t);
    let query = if t.chance(1, 3) { Some(query(t)) } else { None };
    let fragment = if t.chance(1, 10) {
        Some(if t.chance(1, 3) { format!("{}?{}", word(t), query_simple(t)) } else { word(t) })
    } else {
        None
    };
    UrlParts { scheme, host, reg, port, path, query, fragment }
}

fn query_simple(t: &mut Tape) -> String {
    format!("{}={}", t.choose(PARAMS), word(t))
}

pub fn url(t: &mut Tape) -> String {
    url_parts(t).render()
}

fn is_sep_char(c: char) -> bool {
    !(c.is_ascii_alphanumeric() || c == '_' || c == '-' || c == '.' || c == '%')
}

/// index of the first char after "scheme://"
fn after_scheme(u: &str) -> usize {
    u.find("://").map(|i| i + 3).unwrap_or(0)
}

fn host_span(u: &str) -> (usize, usize) {
    let s = after_scheme(u);
    let rest = &u[s..];
    let e = rest
        .find(|c| c == '/' || c == ':' || c == '?' || c == '#')
        .unwrap_or(rest.len());
    (s, s + e)
}

fn char_floor(s: &str, mut i: usize) -> usize {
    while i > 0 && !s.is_char_boundary(i) {
        i -= 1;
    }
    i
}

/// cut a sub-string of `u` at arbitrary byte offsets (so matches fall mid-token)
fn cut(t: &mut Tape, u: &str, min_len: usize) -> String {
    if u.len() <= min_len {
        return u.to_string();
    }
    let len = (min_len + t.pick(12)).min(u.len());
    let start = char_floor(u, t.pick(u.len() - len + 1));
    let end = char_floor(u, (start + len).min(u.len()));
    u[start..end.max(start)].to_string()
}

fn sprinkle_wild(t: &mut Tape, s: &str) -> String {
    // replace separators by '^' and delete runs replaced by '*'
    let chars: Vec<char> = s.chars().collect();
    let mut out = String::new();
    let mut i = 0;
    while i < chars.len() {
        let c = chars[i];
        if is_sep_char(c) && c != '*' && t.chance(1, 3) {
            out.push('^');
            i += 1;
        } else if t.chance(1, 8) {
            out.push('*');
            i += 1 + t.pick(4);
        } else {
            out.push(c);
            i += 1;
        }
    }
    out
}

fn regex_escape(s: &str) -> String {
    let mut o = String::new();
    for c in s.chars() {
        if "\\.+*?()|[]{}^$/".contains(c) {
            o.push('\\');
        }
        o.push(c);
    }
    o
}

/// Options text (without the leading '$'), possibly empty.
pub struct OptCfg {
    pub allow_tag: bool,
    pub allow_badfilter: bool,
    pub allow_modifiers: bool,
    pub allow_generichide: bool,
    /// tag+redirect, tag+removeparam, tag+generichide are documented/unsupported combinations
    pub allow_unsupported_tag_combos: bool,
}

impl Default for OptCfg {
    fn default() -> Self {
        OptCfg {
            allow_tag: true,
            allow_badfilter: true,
            allow_modifiers: true,
            allow_generichide: true,
            allow_unsupported_tag_combos: false,
        }
    }
}

pub const TYPE_OPTS: &[&str] = &[
    "script", "image", "stylesheet", "css", "xmlhttprequest", "xhr", "subdocument", "frame",
    "font", "media", "object", "object-subrequest", "ping", "beacon", "websocket", "other",
    "document", "doc", "~script", "~image", "~stylesheet", "~xhr", "~subdocument", "~font",
    "~media", "~object", "~ping", "~websocket", "~other", "~css", "~frame",
];
pub const PARTY_OPTS: &[&str] = &[
    "third-party", "3p", "~third-party", "~3p", "first-party", "1p", "~first-party", "~1p",
];

pub fn options(t: &mut Tape, pool_hosts: &[(String, String)], cfg: &OptCfg, exception: bool) -> String {
    if !t.chance(1, 2) {
        return String::new();
    }
    let mut opts: Vec<String> = vec![];
    let n = 1 + t.pick(3);
    let mut has_modifier = false;
    let mut has_tag = false;
    for _ in 0..n {
        match t.pick(20) {
            0..=5 => opts.push(t.choose(TYPE_OPTS).to_string()),
            6..=7 => opts.push(t.choose(PARTY_OPTS).to_string()),
            8..=10 => {
                let k = 1 + t.pick(3);
                let mut ds = vec![];
                for _ in 0..k {
                    let (h, reg) = if pool_hosts.is_empty() || t.chance(1, 5) {
                        host(t)
                    } else {
                        t.choose_ref(pool_hosts).clone()
                    };
                    let d = if t.chance(1, 2) { reg } else { h };
                    ds.push(if t.chance(1, 4) { format!("~{}", d) } else { d });
                }
                let key = if t.chance(1, 6) { "from" } else { "domain" };
                opts.push(format!("{}={}", key, ds.join("|")));
            }
            11 => opts.push("important".into()),
            12 => {
                if cfg.allow_tag && (cfg.allow_unsupported_tag_combos || !has_modifier) {
                    // (1 in 12: the legal empty spelling `tag=`, a tag named "")
                    if t.chance(1, 12) { opts.push("tag=".into()); } else { opts.push(format!("tag={}", t.choose(TAGS))); }
                    has_tag = true;
                }
            }
            13..=16 => {
                if cfg.allow_modifiers && !has_modifier && (cfg.allow_unsupported_tag_combos || !has_tag) {
                    has_modifier = true;
                    match t.pick(8) {
                        0..=2 => {
                            let key = if t.chance(1, 2) { "redirect" } else { "redirect-rule" };
                            let name = t.choose(REDIRECT_NAMES);
                            let prio = match t.pick(8) {
                                0 => ":10",
                                1 => ":5",
                                2 => ":-1",
                                3 => ":abc",
                                4 => ":",
                                5 => ":+7",
                                _ => "",
                            };
                            opts.push(format!("{}={}{}", key, name, prio));
                        }
                        3..=4 => {
                            if t.chance(1, 5) {
                                // blanket spelling, with or without an explicit empty value
                                opts.push(if t.chance(1, 3) { "csp=".into() } else { "csp".into() });
                            } else {
                                opts.push(format!("csp={}", t.choose(CSP_VALUES)));
                            }
                        }
                        _ => {
                            if !exception {
                                opts.push(format!("removeparam={}", t.choose(PARAMS)));
                            } else {
                                has_modifier = false;
                            }
                        }
                    }
                }
            }
            17 => {
                if cfg.allow_badfilter && t.chance(1, 3) {
                    opts.push("badfilter".into());
                }
            }
            18 => {
                if cfg.allow_generichide && exception && (cfg.allow_unsupported_tag_combos || !has_tag) {
                    opts.push(if t.chance(1, 2) { "generichide".into() } else { "ghide".into() });
                }
            }
            _ => opts.push("match-case".into()),
        }
    }
    // csp with content types is rejected by the parser; that is fine (line is then junk)
    opts.join(",")
}

/// A network rule line related to the URL pool.
pub fn net_rule(t: &mut Tape, pool: &[String], pool_hosts: &[(String, String)], cfg: &OptCfg) -> String {
    let exception = t.chance(1, 4);
    let u: String = if pool.is_empty() || t.chance(1, 10) { url(t) } else { t.choose_ref(pool).clone() };
    let (hs, he) = host_span(&u);
    let hostname = &u[hs..he];
    let after_host = &u[he..];
    let mut pat = match t.pick(20) {
        0..=3 => cut(t, &u[hs..], 2),
        4 => {
            // |prefix
            let n = char_floor(&u, (he + t.pick(u.len() - he + 1)).min(u.len()));
            format!("|{}", &u[..n])
        }
        5 => {
            // suffix|
            let n = char_floor(&u, t.pick(u.len()));
            format!("{}|", &u[n..])
        }
        6..=9 => {
            // ||host-suffix + path-prefix
            let labels: Vec<&str> = hostname.split('.').collect();
            let k = t.pick(labels.len());
            let hsfx = labels[k..].join(".");
            let n = char_floor(after_host, t.pick(after_host.len() + 1));
            format!("||{}{}", hsfx, &after_host[..n])
        }
        10..=11 => {
            let labels: Vec<&str> = hostname.split('.').collect();
            let k = t.pick(labels.len());
            format!("||{}^", labels[k..].join("."))
        }
        12..=14 => {
            let c = cut(t, &u[hs..], 4);
            sprinkle_wild(t, &c)
        }
        15 => {
            let labels: Vec<&str> = hostname.split('.').collect();
            let k = t.pick(labels.len());
            let n = char_floor(after_host, t.pick(after_host.len() + 1));
            let tail = after_host[..n].to_string();
            format!("||{}{}", labels[k..].join("."), sprinkle_wild(t, &tail))
        }
        16 => {
            let c = cut(t, &u[hs..], 3);
            let mut re = regex_escape(&c);
            match t.pick(5) {
                0 => re.push_str("\\d*"),
                1 => re = format!("{}|zzz", re),
                2 => re = format!("^https?://.*{}", re),
                3 => re = re.replacen("a", "[a-c]", 1),
                _ => {}
            }
            format!("/{}/", re)
        }
        17 => format!("{}{}", word(t), t.choose(SEPS)),
        18 => {
            // scheme-only / degenerate patterns
            t.choose(&["|https://", "|http://", "|ws://", "*", "", "|http*://", "||", "^"]).to_string()
        }
        _ => {
            let w1 = word(t);
            let w2 = word(t);
            format!("{}{}{}", w1, t.choose(SEPS), w2)
        }
    };
    if t.chance(1, 12) {
        pat.push('|');
    }
    if t.chance(1, 15) {
        pat = format!("|{}", pat);
    }
    if t.chance(1, 12) {
        pat = pat.to_uppercase();
    }
    let o = options(t, pool_hosts, cfg, exception);
    let mut line = String::new();
    if exception {
        line.push_str("@@");
    }
    line.push_str(&pat);
    if !o.is_empty() {
        line.push('$');
        line.push_str(&o);
    }
    line
}

pub fn perturb(t: &mut Tape, u: &str) -> String {
    let mut s: Vec<char> = u.chars().collect();
    if s.is_empty() {
        return u.to_string();
    }
    let start = after_scheme(u).min(s.len() - 1);
    let i = start + t.pick(s.len() - start);
    match t.pick(6) {
        0 => {
            s[i] = s[i].to_ascii_uppercase();
        }
        1 => {
            s.insert(i, t.choose(&['x', 'a', 's', '/', '.', '-', '*', '?']));
        }
        2 => {
            s.remove(i);
        }
        3 => {
            s[i] = t.choose(&['x', 'b', '/', '.', '_', '=']);
        }
        4 => {
            // prefix a word-start with a letter (token suffix shape)
            let mut j = i;
            while j > start && s[j - 1].is_ascii_alphanumeric() {
                j -= 1;
            }
            s.insert(j, t.choose(&['l', 'x', 'b', '9']));
        }
        _ => {}
    }
    s.into_iter().collect()
}

pub fn source_for(t: &mut Tape, u: &str, pool_hosts: &[(String, String)]) -> String {
    let (hs, he) = host_span(u);
    let h = &u[hs..he];
    match t.pick(10) {
        0..=2 => format!("https://{}/", h),
        3 => format!("https://sub.{}/page", h),
        4 => {
            // same registrable domain, different subdomain if we can
            let labels: Vec<&str> = h.split('.').collect();
            if labels.len() > 2 {
                format!("https://{}/", labels[1..].join("."))
            } else {
                format!("https://other.{}/", h)
            }
        }
        5..=7 => {
            if pool_hosts.is_empty() {
                "https://unrelated.example.org/".into()
            } else {
                let (ph, reg) = t.choose_ref(pool_hosts);
                if t.chance(1, 2) { format!("https://{}/x", ph) } else { format!("http://{}/", reg) }
            }
        }
        8 => String::new(),
        _ => t.choose(&["not a url", "about:blank", "https://", "data:text/plain,x"]).to_string(),
    }
}

pub fn request(t: &mut Tape, pool: &[String], pool_hosts: &[(String, String)]) -> ReqSpec {
    let base = if pool.is_empty() || t.chance(1, 12) { url(t) } else { t.choose_ref(pool).clone() };
    let u = if t.chance(1, 3) { perturb(t, &base) } else { base };
    let source = source_for(t, &u, pool_hosts);
    let rtype = t.choose(REQ_TYPES).to_string();
    ReqSpec { url: u, source, rtype }
}

/// the same rule under another tag (rules identical apart from `$tag=`)
pub fn tag_twin(t: &mut Tape, rule: &str) -> String {
    let (pat, opts) = match rule.rfind('$') {
        Some(i) => (rule[..i].to_string(), rule[i + 1..].to_string()),
        None => (rule.to_string(), String::new()),
    };
    if opts.contains("redirect") || opts.contains("removeparam") || opts.contains("generichide") || opts.contains("ghide") || opts.contains("badfilter") {
        return rule.to_string();
    }
    let mut os: Vec<String> = opts.split(',').filter(|o| !o.is_empty() && !o.starts_with("tag=")).map(|o| o.to_string()).collect();
    os.push(format!("tag={}", t.choose(TAGS)));
    format!("{}${}", pat, os.join(","))
}

/// A complete network case: URL pool -> rules cut from it -> requests from it.
#[derive(Clone, Debug, Serialize, Deserialize)]
pub struct NetCase {
    pub rules: Vec<String>,
    pub tags: Vec<String>,
    pub reqs: Vec<ReqSpec>,
}

impl crate::run::Case for NetCase {
    fn smaller(&self) -> Vec<Self> {
        let mut v = vec![];
        // halves first, then single removals
        if self.rules.len() > 3 {
            let h = self.rules.len() / 2;
            let mut a = self.clone();
            a.rules.truncate(h);
            v.push(a);
            let mut b = self.clone();
            b.rules.drain(..h);
            v.push(b);
        }
        if self.reqs.len() > 1 {
            for i in 0..self.reqs.len() {
                let mut c = self.clone();
                c.reqs = vec![self.reqs[i].clone()];
                v.push(c);
            }
        }
        for i in 0..self.rules.len() {
            let mut c = self.clone();
            c.rules.remove(i);
            v.push(c);
        }
        for i in 0..self.tags.len() {
            let mut c = self.clone();
            c.tags.remove(i);
            v.push(c);
        }
        // simplify one rule's options
        for i in 0..self.rules.len() {
            if let Some(p) = self.rules[i].rfind('$') {
                let opts: Vec<&str> = self.rules[i][p + 1..].split(',').collect();
                if opts.len() > 1 {
                    for k in 0..opts.len() {
                        let mut o = opts.clone();
                        o.remove(k);
                        let mut c = self.clone();
                        c.rules[i] = format!("{}${}", &self.rules[i][..p], o.join(","));
                        v.push(c);
                    }
                } else {
                    let mut c = self.clone();
                    c.rules[i] = self.rules[i][..p].to_string();
                    v.push(c);
                }
            }
        }
        v
    }
}

pub struct NetCfg {
    pub max_rules: usize,
    pub max_reqs: usize,
    pub opt: OptCfg,
    pub hosts_lines: bool,
    pub junk_lines: bool,
}

impl Default for NetCfg {
    fn default() -> Self {
        NetCfg { max_rules: 16, max_reqs: 8, opt: OptCfg::default(), hosts_lines: false, junk_lines: true }
    }
}

pub const JUNK: &[&str] = &[
    "! comment", "[Adblock Plus 2.0]", "", "  ", "a", "# comment", "$$script", "foo$bar=baz",
    "example.com#$#body { }", "||x.com^$removeparam", "@@foo$removeparam=x", "foo$~important",
];

pub fn net_case(t: &mut Tape, cfg: &NetCfg) -> NetCase {
    let npool = 1 + t.pick(4);
    let mut pool = vec![];
    let mut pool_hosts = vec![];
    for _ in 0..npool {
        let p = url_parts(t);
        pool_hosts.push((p.host.clone(), p.reg.clone()));
        pool.push(p.render());
    }
    let nrules = 1 + t.pick(cfg.max_rules);
    let mut rules: Vec<String> = vec![];
    for _ in 0..nrules {
        let r = match t.pick(24) {
            0 if !rules.is_empty() => t.choose_ref(&rules).clone(), // exact duplicate
            1 if !rules.is_empty() && cfg.opt.allow_badfilter => {
                // badfilter twin of an earlier rule
                let r = t.choose_ref(&rules).clone();
                if r.contains('$') { format!("{},badfilter", r) } else { format!("{}$badfilter", r) }
            }
            2 if !rules.is_empty() => {
                // near duplicate: same pattern, other options
                let r = t.choose_ref(&rules).clone();
                let pat = r.rfind('$').map(|i| r[..i].to_string()).unwrap_or(r.clone());
                let ex = pat.starts_with("@@");
                let o = options(t, &pool_hosts, &cfg.opt, ex);
                if o.is_empty() { pat } else { format!("{}${}", pat, o) }
            }
            3 if cfg.junk_lines => t.choose(JUNK).to_string(),
            4 if !rules.is_empty() && cfg.opt.allow_tag => {
                // the same rule under one or two other tags
                let r = t.choose_ref(&rules).clone();
                let a = tag_twin(t, &r);
                if t.chance(1, 2) {
                    let b = tag_twin(t, &r);
                    rules.push(b);
                }
                a
            }
            _ => net_rule(t, &pool, &pool_hosts, &cfg.opt),
        };
        rules.push(r);
    }
    let mut tags = vec![];
    for tg in TAGS {
        if t.chance(1, 2) {
            tags.push(tg.to_string());
        }
    }
    let nreq = 1 + t.pick(cfg.max_reqs);
    let mut reqs = vec![];
    for _ in 0..nreq {
        reqs.push(request(t, &pool, &pool_hosts));
    }
    NetCase { rules, tags, reqs }
}

/// standard resources used by network checks
pub fn b64(s: &str) -> String {
    use base64::{engine::Engine as _, prelude::BASE64_STANDARD};
    BASE64_STANDARD.encode(s)
}

pub fn std_resources() -> Vec<adblock::resources::Resource> {
    use adblock::resources::{MimeType, PermissionMask, Resource, ResourceType};
    let mk = |name: &str, aliases: &[&str], kind: ResourceType, content: &str, perm: u8| Resource {
        name: name.to_string(),
        aliases: aliases.iter().map(|s| s.to_string()).collect(),
        kind,
        content: b64(content),
        dependencies: vec![],
        permission: PermissionMask::from_bits(perm),
    };
    vec![
        mk("noop.js", &["noopjs"], ResourceType::Mime(MimeType::ApplicationJavascript), "(function(){})()", 0),
        mk("1x1.gif", &["1x1-transparent.gif"], ResourceType::Mime(MimeType::ImageGif), "GIF89a", 0),
        mk("noop.txt", &[], ResourceType::Mime(MimeType::TextPlain), "", 0),
        mk("noop.html", &[], ResourceType::Mime(MimeType::TextHtml), "<html></html>", 0),
        mk("tmpl.js", &[], ResourceType::Template, "console.log('{{1}}')", 0),
        mk("fn.js", &[], ResourceType::Mime(MimeType::FnJavascript), "function fnjs(){}", 0),
        mk("perm.js", &[], ResourceType::Mime(MimeType::ApplicationJavascript), "perm()", 1),
    ]
}

/// hosts-format list + requests around the listed hosts
pub fn hosts_case(t: &mut Tape) -> NetCase {
    let n = 1 + t.pick(8);
    let mut hosts = vec![];
    let mut rules = vec![];
    for _ in 0..n {
        let (h, reg) = host(t);
        let hh = if t.chance(1, 2) { reg.clone() } else { h.clone() };
        hosts.push(hh.clone());
        let line = match t.pick(10) {
            0 => format!("127.0.0.1 {}", hh),
            1 => format!("0.0.0.0\t{}", hh),
            2 => hh.clone(),
            3 => format!("0.0.0.0 {} # c", hh),
            4 => format!("  0.0.0.0   {}  ", hh),
            5 => t.choose(&["localhost", "127.0.0.1 localhost", "# comment", "! c", "0.0.0.0 a b", "0.0.0.0 bad/host", "com", "::1 ip6-localhost x", ""]).to_string(),
            6 => format!("0.0.0.0 www.{}", hh),
            7 => format!("0.0.0.0 {}", hh.to_uppercase()),
            _ => format!("0.0.0.0 {}", hh),
        };
        rules.push(line);
    }
    let nreq = 1 + t.pick(8);
    let mut reqs = vec![];
    for _ in 0..nreq {
        let h = t.choose_ref(&hosts).clone();
        let target = match t.pick(6) {
            0 => format!("sub.{}", h),
            1 => format!("x{}", h),
            2 => format!("{}.evil.org", h),
            3 => h.split_once('.').map(|x| x.1.to_string()).unwrap_or(h.clone()),
            _ => h.clone(),
        };
        let u = format!("{}://{}{}", t.choose(SCHEMES), target, path(t));
        let source = source_for(t, &u, &[]);
        reqs.push(ReqSpec { url: u, source, rtype: t.choose(REQ_TYPES).to_string() });
    }
    NetCase { rules, tags: vec![], reqs }
}

/// Lists built to fuse under optimisation: many rules share one token and one of a few option
/// sets, while differing in pattern kind, tag, exception-ness, importance.
pub fn fuse_case(t: &mut Tape) -> NetCase {
    let w = t.choose(&["ads", "banner", "track", "pixel", "advert"]);
    let others = ["foo", "bar", "img", "x1", "load", "zz", "advice", "q"];
    let optsets = ["", "", "script", "image,script", "~script", "third-party", "important", "match-case", "xhr,1p", "subdocument", "subdocument,document", "script,document", "document"];
    let n = if t.chance(1, 10) { 20 + t.pick(80) } else { 2 + t.pick(24) };
    let mut rules = vec![];
    for _ in 0..n {
        let o = t.choose(&others);
        let pat = match t.pick(12) {
            0 => format!("/{}/{}", w, o),
            1 => format!("{}-{}.", w, o),
            2 => format!("/{}*{}", w, o),
            3 => format!("/{}^{}", w, o),
            4 => format!("/{}{}/", w, "\\d+"),
            5 => format!("|https://{}.", w),
            6 => format!("/{}/{}|", w, o),
            7 => format!("/{}.", w),
            8 => format!("/{}_{}", w, o),
            9 => format!("-{}-", w),
            10 => format!("/{}/*/{}", w, o),
            _ => format!("/{}/{}.js", w, o),
        };
        let mut opts: Vec<String> = vec![];
        let os = t.choose(&optsets);
        if !os.is_empty() {
            opts.push(os.to_string());
        }
        let tagged = t.chance(1, 4);
        if tagged {
            // (1 in 8: the empty tag, spelled `tag=`)
            if t.chance(1, 8) { opts.push("tag=".into()); } else { opts.push(format!("tag={}", t.choose(TAGS))); }
        }
        // tag + redirect is documented as unsupported: never combined
        if t.chance(1, 10) && !tagged {
            opts.push(format!("redirect=noop.js"));
        }
        if t.chance(1, 12) {
            opts.push(format!("domain={}", t.choose(&["a.com", "b.com|~x.b.com"])));
        }
        let ex = t.chance(1, 4);
        let mut line = String::new();
        if ex {
            line.push_str("@@");
        }
        line.push_str(&pat);
        if !opts.is_empty() {
            line.push('$');
            line.push_str(&opts.join(","));
        }
        rules.push(line);
    }
    // exact-URL rules (`|url|`) whose URLs are prefixes of one another, with the same options: they
    // share the token and are fused, but each matches only its own URL
    let mut exact_urls: Vec<String> = vec![];
    if t.chance(1, 4) {
        let base = format!("https://{}.example.com/", w);
        let o = t.choose(&others);
        let fam = [base.clone(), format!("{}{}", base, o), format!("{}{}/", base, o), format!("{}{}/{}", base, o, t.choose(&others)), format!("{}a", base)];
        let os = t.choose(&["", "", "$script", "$image,script"]);
        let ex = if t.chance(1, 5) { "@@" } else { "" };
        for u in fam.iter() {
            if t.chance(2, 3) {
                rules.push(format!("{}|{}|{}", ex, u, os));
                exact_urls.push(u.clone());
            }
        }
        if ex == "@@" {
            rules.push(format!("||{}.example.com^", w));
        }
        for u in fam.iter() {
            exact_urls.push(u.clone());
        }
    }
    let mut tags = vec![];
    for tg in TAGS {
        if t.chance(1, 2) {
            tags.push(tg.to_string());
        }
    }
    let nreq = 2 + t.pick(8);
    let mut reqs = vec![];
    for u in exact_urls {
        reqs.push(ReqSpec { url: u, source: "https://site.org/".into(), rtype: "script".into() });
    }
    for _ in 0..nreq {
        let o = t.choose(&others);
        let o2 = t.choose(&others);
        let (h, _) = host(t);
        let p = match t.pick(10) {
            0 => format!("/{}/{}", w, o),
            1 => format!("/x/{}-{}.gif", w, o),
            2 => format!("/{}{}{}", w, o2, o),
            3 => format!("/{}/{}", w, o),
            4 => format!("/{}{}/", w, t.pick(100)),
            5 => format!("/{}.{}", w, o),
            6 => format!("/{}_{}", w, o),
            7 => format!("/a-{}-b", w),
            8 => format!("/{}/{}/{}", w, o2, o),
            _ => format!("/{}/{}.js", w, o),
        };
        let scheme = t.choose(&["https", "http", "https"]);
        let u = if t.chance(1, 6) { format!("{}://{}.{}{}", scheme, w, h, p) } else { format!("{}://{}{}", scheme, h, p) };
        let u = if t.chance(1, 8) { u.to_uppercase().replacen("HTTPS", "https", 1).replacen("HTTP", "http", 1) } else { u };
        let source = source_for(t, &u, &[]);
        reqs.push(ReqSpec { url: u, source, rtype: t.choose(&["script", "image", "xhr", "other", "document", "font"]).to_string() });
    }
    NetCase { rules, tags, reqs }
}

// ---------------------------------------------------------------------------------------------
// cosmetic rules

pub const CLASSES: &[&str] = &["ad", "ads", "banner", "ad-box", "x_1", "sponsor", "a", "b1"];
pub const IDS: &[&str] = &["ad", "top-banner", "sidebar", "x", "adv_1"];
pub const SCRIPTLETS: &[&str] = &["set", "abort.js", "fnlet", "tmpl", "perm", "missing", "noop.js"];

pub fn selector(t: &mut Tape) -> String {
    match t.pick(14) {
        0..=2 => format!(".{}", t.choose(CLASSES)),
        3..=4 => format!("#{}", t.choose(IDS)),
        5 => format!(".{} > .{}", t.choose(CLASSES), t.choose(CLASSES)),
        6 => format!("#{} .{}", t.choose(IDS), t.choose(CLASSES)),
        7 => format!(".{}[href^=\"http\"]", t.choose(CLASSES)),
        8 => format!("div.{}", t.choose(CLASSES)),
        9 => format!("a[href*=\"{}\"]", t.choose(WORDS)),
        10 => format!(".{}:not(.{})", t.choose(CLASSES), t.choose(CLASSES)),
        11 => "iframe[src*=\"ads\"]".to_string(),
        12 => format!("#{}.{}", t.choose(IDS), t.choose(CLASSES)),
        _ => format!("div > .{}", t.choose(CLASSES)),
    }
}

pub fn cosmetic_location(t: &mut Tape, hosts: &[(String, String)]) -> String {
    let (h, reg) = if hosts.is_empty() || t.chance(1, 6) { host(t) } else { t.choose_ref(hosts).clone() };
    let base = match t.pick(8) {
        0..=2 => h,
        3..=4 => reg,
        5 => {
            // entity form
            let main = reg.split('.').next().unwrap_or("x").to_string();
            format!("{}.*", main)
        }
        6 => {
            let labels: Vec<&str> = h.split('.').collect();
            labels[labels.len().saturating_sub(3).min(labels.len() - 1)..].join(".")
        }
        _ => reg.splitn(2, '.').nth(1).unwrap_or("com").to_string(), // public suffix
    };
    if t.chance(1, 6) { format!("~{}", base) } else { base }
}

pub fn cosmetic_rule(t: &mut Tape, hosts: &[(String, String)]) -> String {
    let nloc = [0usize, 0, 1, 1, 1, 2, 3][t.pick(7)];
    let mut locs = vec![];
    for _ in 0..nloc {
        locs.push(cosmetic_location(t, hosts));
    }
    let loc = locs.join(",");
    let unhide = nloc > 0 && t.chance(1, 4);
    let sep = if unhide { "#@#" } else { "##" };
    let body = match t.pick(12) {
        0..=6 => selector(t),
        7 => format!("{}:style({})", selector(t), t.choose(&["color: red", "display: block !important", "margin: 0"])),
        8 => format!("{}:remove()", selector(t)),
        9 => format!("{}:remove-attr({})", selector(t), t.choose(&["onclick", "href"])),
        10 => format!("{}:remove-class({})", selector(t), t.choose(CLASSES)),
        _ => {
            if unhide && t.chance(1, 3) {
                "+js()".to_string()
            } else {
                let name = t.choose(SCRIPTLETS);
                let nargs = t.pick(3);
                let mut args = vec![name.to_string()];
                for _ in 0..nargs {
                    args.push(t.choose(&["a", "b.c", "'x, y'", "\"q\"", "1", "foo bar", "x\\,y"]).to_string());
                }
                format!("+js({})", args.join(", "))
            }
        }
    };
    format!("{}{}{}", loc, sep, body)
}

/// engine-level case: network + cosmetic rules, tags, network requests, page urls, class/id sets
#[derive(Clone, Debug, Serialize, Deserialize)]
pub struct FullCase {
    pub rules: Vec<String>,
    pub tags: Vec<String>,
    pub reqs: Vec<ReqSpec>,
    pub pages: Vec<String>,
    pub classes: Vec<String>,
    pub ids: Vec<String>,
    pub debug: bool,
    pub optimize: bool,
}

impl crate::run::Case for FullCase {
    fn smaller(&self) -> Vec<Self> {
        let mut v = vec![];
        if self.rules.len() > 3 {
            let h = self.rules.len() / 2;
            let mut a = self.clone();
            a.rules.truncate(h);
            v.push(a);
            let mut b = self.clone();
            b.rules.drain(..h);
            v.push(b);
        }
        for i in 0..self.rules.len() {
            let mut c = self.clone();
            c.rules.remove(i);
            v.push(c);
        }
        macro_rules! drop_each {
            ($f:ident) => {
                if self.$f.len() > 0 {
                    let mut c = self.clone();
                    c.$f.clear();
                    v.push(c);
                    for i in 0..self.$f.len() {
                        let mut c = self.clone();
                        c.$f.remove(i);
                        v.push(c);
                    }
                }
            };
        }
        drop_each!(reqs);
        drop_each!(pages);
        drop_each!(classes);
        drop_each!(ids);
        drop_each!(tags);
        if self.debug {
            let mut c = self.clone();
            c.debug = false;
            v.push(c);
        }
        if self.optimize {
            let mut c = self.clone();
            c.optimize = false;
            v.push(c);
        }
        v
    }
}

pub fn full_case(t: &mut Tape, cfg: &NetCfg, cosmetic_share: usize) -> FullCase {
    let npool = 1 + t.pick(4);
    let mut pool = vec![];
    let mut pool_hosts = vec![];
    for _ in 0..npool {
        let p = url_parts(t);
        pool_hosts.push((p.host.clone(), p.reg.clone()));
        pool.push(p.render());
    }
    let nrules = 1 + t.pick(cfg.max_rules);
    let mut rules = vec![];
    for _ in 0..nrules {
        if t.pick(10) < cosmetic_share {
            rules.push(cosmetic_rule(t, &pool_hosts));
        } else if t.chance(1, 12) {
            // generichide exception for a pool host
            let (h, _) = t.choose_ref(&pool_hosts).clone();
            rules.push(format!("@@||{}^$generichide", h));
        } else if t.chance(1, 10) && rules.iter().any(|r| !r.contains('#')) && cfg.opt.allow_tag {
            // the same network rule under two tags
            let nets: Vec<String> = rules.iter().filter(|r| !r.contains('#')).cloned().collect();
            let r = t.choose_ref(&nets).clone();
            let a = tag_twin(t, &r);
            let b = tag_twin(t, &r);
            rules.push(a);
            rules.push(b);
        } else {
            rules.push(net_rule(t, &pool, &pool_hosts, &cfg.opt));
        }
    }
    // long lines: cross the msgpack str8/str16/str32 and array16 boundaries now and then
    if t.chance(1, 12) {
        let len = [40usize, 300, 70_000][t.pick(3)];
        let body: String = (0..len).map(|i| (b'a' + (i % 23) as u8) as char).collect();
        rules.push(match t.pick(4) {
            0 => format!("/{}/x", body),
            1 => format!("example.com##.{}", body),
            2 => format!("||example.com/{}^$script", body),
            _ => format!("example.com##+js(set, {})", body),
        });
    }
    if t.chance(1, 12) {
        // one bucket with more than 15 rules
        for i in 0..(16 + t.pick(20)) {
            rules.push(format!("/bucketful/{}{}$image", word(t), i));
        }
    }
    let mut tags = vec![];
    for tg in TAGS {
        if t.chance(1, 2) {
            tags.push(tg.to_string());
        }
    }
    let nreq = 1 + t.pick(cfg.max_reqs);
    let mut reqs = vec![];
    for _ in 0..nreq {
        reqs.push(request(t, &pool, &pool_hosts));
    }
    let mut pages = vec![];
    for _ in 0..(1 + t.pick(3)) {
        let (h, _) = if t.chance(1, 5) { host(t) } else { t.choose_ref(&pool_hosts).clone() };
        let h = if t.chance(1, 4) { format!("sub.{}", h) } else { h };
        pages.push(format!("https://{}/{}", h, word(t)));
    }
    let mut classes = vec![];
    let mut ids = vec![];
    for c in CLASSES {
        if t.chance(1, 2) {
            classes.push(c.to_string());
        }
    }
    for c in IDS {
        if t.chance(1, 2) {
            ids.push(c.to_string());
        }
    }
    if t.chance(1, 10) {
        // a token-less rule with a long initiator list (thresholds such as 16 entries) that also
        // names dot-less hosts; requests whose URL contains such a name as a token
        let n = [8usize, 15, 16, 17, 24, 40][t.pick(6)];
        let mut ds: Vec<String> = (0..n).map(|i| format!("d{}.example", i)).collect();
        let dotless = t.choose(&["localhost", "intranet", "router"]);
        ds.insert(t.pick(ds.len() + 1), dotless.to_string());
        let ty = t.choose(&["script", "image"]);
        rules.push(format!("{}${},domain={}", t.choose(&["advert", "a*", "/x."]), ty, ds.join("|")));
        for src in ["https://unlisted.example/", "https://d3.example/", &format!("http://{}/", dotless), ""] {
            reqs.push(ReqSpec { url: format!("https://cdn.example.net/{}/advert.js?x.", dotless), source: src.to_string(), rtype: ty.to_string() });
            reqs.push(ReqSpec { url: "https://cdn.example.net/d3/example/advert/x.js".into(), source: src.to_string(), rtype: ty.to_string() });
        }
    }
    FullCase { rules, tags, reqs, pages, classes, ids, debug: t.chance(1, 2), optimize: t.chance(1, 2) }
}

/// resources for scriptlet tests used by engine-level checks (all permission 0 except `perm`)
pub fn scriptlet_resources() -> Vec<adblock::resources::Resource> {
    use adblock::resources::{MimeType, PermissionMask, Resource, ResourceType};
    let mk = |name: &str, aliases: &[&str], kind: ResourceType, content: &str, deps: &[&str], perm: u8| Resource {
        name: name.to_string(),
        aliases: aliases.iter().map(|s| s.to_string()).collect(),
        kind,
        content: b64(content),
        dependencies: deps.iter().map(|s| s.to_string()).collect(),
        permission: PermissionMask::from_bits(perm),
    };
    let mut v = std_resources();
    v.push(mk("set.js", &["set-constant.js"], ResourceType::Mime(MimeType::ApplicationJavascript), "function setConstant(a, b) { /*MARK-set*/ }", &["dep.fn"], 0));
    v.push(mk("dep.fn", &[], ResourceType::Mime(MimeType::FnJavascript), "function depFn() { /*MARK-dep*/ }", &[], 0));
    v.push(mk("abort.js", &[], ResourceType::Mime(MimeType::ApplicationJavascript), "(function(){ /*MARK-abort {{1}} {{2}}*/ })();", &[], 0));
    v.push(mk("fnlet.js", &[], ResourceType::Mime(MimeType::ApplicationJavascript), "function fnlet(x) { /*MARK-fnlet*/ }", &[], 0));
    v.push(mk("tmpl.js2", &["tmpl"], ResourceType::Template, "/*MARK-tmpl {{1}}*/", &[], 0));
    v.push(mk("perm", &[], ResourceType::Mime(MimeType::ApplicationJavascript), "function permlet() { /*MARK-perm*/ }", &[], 2));
    v
}

/// Like `fuse_case`, but the rules have NO indexable token (1-char words, wildcards, empty
/// patterns), so they all land in the fallback bucket, where catch-all rules get fused with them.
pub fn tokenless_case(t: &mut Tape) -> NetCase {
    let optsets = ["", "font,third-party", "script", "image,script", "websocket", "third-party", "important", "xhr,1p", "~image"];
    let pats = ["", "*", "/f.", "/a-", "-b_", "/f*x.", "_c/", "/a*.b/", ".j?", "/x/*/y", "=1&", "/*/", "^a^"];
    let n = 2 + t.pick(10);
    let mut rules = vec![];
    for _ in 0..n {
        let p = t.choose(&pats);
        let o = t.choose(&optsets);
        let ex = if t.chance(1, 5) { "@@" } else { "" };
        let mut opts: Vec<String> = if o.is_empty() { vec![] } else { vec![o.to_string()] };
        if t.chance(1, 6) {
            opts.push(format!("tag={}", t.choose(TAGS)));
        }
        if p.is_empty() && opts.is_empty() {
            opts.push("script".into());
        }
        rules.push(if opts.is_empty() { format!("{}{}", ex, p) } else { format!("{}{}${}", ex, p, opts.join(",")) });
    }
    let mut tags = vec![];
    for tg in TAGS {
        if t.chance(1, 2) {
            tags.push(tg.to_string());
        }
    }
    let mut reqs = vec![];
    for _ in 0..(2 + t.pick(8)) {
        let (h, _) = host(t);
        let path = t.choose(&["/f.woff2", "/a-b_c/", "/x/1/y.js", "/fonts/r.j?v=1&x", "/", "/a/b/c", "/fax.b/", "/q^a"]);
        let u = format!("{}://{}{}", t.choose(&["https", "http", "wss", "https"]), h, path);
        let source = source_for(t, &u, &[]);
        reqs.push(ReqSpec { url: u, source, rtype: t.choose(&["font", "script", "image", "websocket", "xhr", "other", "document"]).to_string() });
    }
    NetCase { rules, tags, reqs }
}

/// Long URLs (60-126 tokens, the documented index limit is 127) and long hostnames; rules are cut
/// from the *tail* of the URL so that the token that decides the bucket lies late in the URL.
pub fn long_url_case(t: &mut Tape) -> NetCase {
    // token budget: scheme + host labels + path segments + 2 per query pair must stay below 120
    let nlabels = 1 + t.pick(12);
    let budget = (30 + t.pick(86)).min(116usize.saturating_sub(nlabels + 3));
    let in_query = t.pick(budget / 3 + 1);
    let nseg = budget - 2 * in_query + in_query; // path segments + query pairs
    let mut segs: Vec<String> = vec![];
    for i in 0..nseg {
        segs.push(if t.chance(1, 6) { format!("{}{}", word(t), i) } else { format!("t{}x{}", i, t.pick(50)) });
    }
    let mut host = String::new();
    for i in 0..nlabels {
        host.push_str(&format!("l{}.", i));
    }
    host.push_str("example.com");
    let split = segs.len() - in_query.min(segs.len());
    let path = segs[..split].join("/");
    let query = segs[split..].iter().enumerate().map(|(i, s)| format!("k{}={}", i, s)).collect::<Vec<_>>().join("&");
    let u = format!("https://{}/{}?{}", host, path, query);
    let mut rules = vec![];
    for _ in 0..(1 + t.pick(6)) {
        let from = u.len() - 1 - t.pick((u.len() / 3).max(1));
        let from = from.min(u.len() - 1);
        let len = 4 + t.pick(30);
        let start = from.saturating_sub(len);
        let piece = &u[start..from];
        let r = match t.pick(6) {
            0 => format!("{}|", &u[start..]),
            1 => piece.replace('&', "^").to_string(),
            2 => format!("||example.com*{}", piece),
            3 => format!("||l{}.example.com^", nlabels - 1),
            4 => format!("{}$domain={}", piece, host),
            _ => piece.to_string(),
        };
        rules.push(r);
    }
    if t.chance(1, 3) {
        rules.push(format!("@@{}", t.choose_ref(&rules).clone()));
    }
    let mut reqs = vec![ReqSpec { url: u.clone(), source: format!("https://{}/", host), rtype: "script".into() }];
    reqs.push(ReqSpec { url: u.clone(), source: "https://other.org/".into(), rtype: "image".into() });
    // a few more tokens: still below the limit?
    let extra = format!("{}&z1=a1&z2=b2", u);
    if crate::props::c01::approx_tokens(&extra) < 120 {
        reqs.push(ReqSpec { url: extra, source: String::new(), rtype: "xhr".into() });
    }
    NetCase { rules, tags: vec![], reqs }
}

/// Large groups of same-shaped rules (threshold sizes around 16/32/64/128/256/512) that share a
/// bucket and an option mask, with one request per rule (or a sample of them): the place where
/// fused regex sets, split/merged groups, capacity limits and LRU-style caches show up.
pub fn big_group_case(t: &mut Tape) -> NetCase {
    let sizes = [2usize, 16, 17, 33, 63, 64, 65, 66, 127, 128, 129, 130, 200, 257, 300, 513, 600, 800];
    let n = (sizes[t.pick(sizes.len())] + t.pick(3)).max(2);
    let kind = t.pick(5);
    let opt = t.choose(&["", "", "script", "third-party", "image,script"]);
    let exception = t.chance(1, 4);
    let tag = if t.chance(1, 6) { Some(t.choose(TAGS)) } else { None };
    let rule_for = |i: usize| -> String {
        let body = match kind {
            0 => format!("/adzone/unit{}x", i),
            1 => format!("/adzone/*-unit{}x", i),
            2 => format!("/adzone^unit{}^", i),
            3 => format!("ad*slot{:04}", i),
            _ => format!("/adzone/{}/*/banner^", i),
        };
        let mut o: Vec<String> = vec![];
        if !opt.is_empty() {
            o.push(opt.to_string());
        }
        if let Some(tg) = tag {
            o.push(format!("tag={}", tg));
        }
        format!("{}{}{}{}", if exception { "@@" } else { "" }, body, if o.is_empty() { "" } else { "$" }, o.join(","))
    };
    let url_for = |i: usize| -> String {
        match kind {
            0 => format!("https://cdn.example.net/adzone/unit{}x.js", i),
            1 => format!("https://cdn.example.net/adzone/q/r-unit{}x.png", i),
            2 => format!("https://cdn.example.net/adzone/unit{}/a.js", i),
            3 => format!("https://cdn.example.net/p/adv-slot{:04}.js", i),
            _ => format!("https://cdn.example.net/adzone/{}/x/banner?q", i),
        }
    };
    let mut rules: Vec<String> = (0..n).map(rule_for).collect();
    if exception {
        rules.push("||cdn.example.net^".to_string());
    }
    for _ in 0..t.pick(4) {
        rules.push(t.choose(&["/other/path", "||unrelated.org^", "@@/never/matches$image", "/adzone/zzz*qq$important"]).to_string());
    }
    if t.chance(1, 3) {
        // insertion order must not matter
        let k = t.pick(rules.len());
        rules.rotate_left(k);
    }
    let mut idx: Vec<usize> = vec![0, n - 1, n.saturating_sub(2), n / 2];
    for m in [15usize, 16, 31, 32, 63, 64, 127, 128, 255, 256, 511, 512] {
        if m < n {
            idx.push(m);
        }
    }
    if n <= 300 || t.chance(1, 3) {
        idx = (0..n).collect();
    } else {
        for _ in 0..20 {
            idx.push(t.pick(n));
        }
    }
    idx.sort();
    idx.dedup();
    let ty = if opt.contains("image") && !opt.contains("script") { "image" } else { "script" };
    let mut reqs: Vec<ReqSpec> = idx.iter().map(|&i| ReqSpec { url: url_for(i), source: "https://news.example.org/".into(), rtype: ty.into() }).collect();
    reqs.push(ReqSpec { url: url_for(n + 7), source: "https://news.example.org/".into(), rtype: ty.into() });
    let tags = match tag {
        Some(tg) if t.chance(3, 4) => vec![tg.to_string()],
        _ => vec![],
    };
    NetCase { rules, tags, reqs }
}
