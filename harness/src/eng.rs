//! Glue around the library under test + the rule-by-rule specification of a verdict.

use crate::gen::ReqSpec;
use adblock::filters::network::{NetworkFilter, NetworkFilterMaskHelper, NetworkMatchable};
use adblock::lists::{parse_filter, FilterFormat, FilterSet, ParseOptions, ParsedFilter, RuleTypes};
use adblock::regex_manager::RegexManager;
use adblock::request::Request;
use adblock::resources::{MimeType, Resource, ResourceType};
use adblock::Engine;
use base64::{engine::Engine as _, prelude::BASE64_STANDARD};
use serde::{Deserialize, Serialize};
use std::collections::{BTreeSet, HashSet};

pub fn std_opts() -> ParseOptions {
    ParseOptions { format: FilterFormat::Standard, rule_types: RuleTypes::All, ..Default::default() }
}

pub fn mk_request(r: &ReqSpec) -> Option<Request> {
    Request::new(&r.url, &r.source, &r.rtype).ok()
}

pub fn build_engine(rules: &[String], debug: bool, optimize: bool, resources: &[Resource]) -> Engine {
    let mut fs = FilterSet::new(debug);
    fs.add_filters(rules, std_opts());
    let mut e = Engine::from_filter_set(fs, optimize);
    e.use_resources(resources.iter().cloned());
    e
}

pub fn build_engine_opts(rules: &[String], debug: bool, optimize: bool, resources: &[Resource], opts: ParseOptions) -> Engine {
    let mut fs = FilterSet::new(debug);
    fs.add_filters(rules, opts);
    let mut e = Engine::from_filter_set(fs, optimize);
    e.use_resources(resources.iter().cloned());
    e
}

/// The same network rules supplied ONE AT A TIME: `Blocker::new(no rules)` followed by
/// `Blocker::add_filter` per rule, in list order. `None` when the list contains a `$badfilter`
/// rule (`add_filter` documents those as unsupported). A `FilterExists` refusal is fine for a
/// line that was already added verbatim; for any other line it is reported through `refused`.
pub fn incremental_blocker(rules: &[String], opts: ParseOptions, tags: &[String], refused: &mut Vec<String>) -> Option<adblock::blocker::Blocker> {
    use adblock::blocker::{Blocker, BlockerOptions};
    let parsed = parse_network_opts(rules, opts);
    if parsed.iter().any(|p| p.f.is_badfilter()) {
        return None;
    }
    let mut b = Blocker::new(Vec::new(), &BlockerOptions { enable_optimizations: false });
    let mut seen: HashSet<String> = HashSet::new();
    for p in &parsed {
        let line = p.line.trim().to_string();
        if b.add_filter(p.f.clone()).is_err() && !seen.contains(&line) {
            refused.push(line.clone());
        }
        seen.insert(line);
    }
    b.use_tags(&tags.iter().map(|s| s.as_str()).collect::<Vec<_>>());
    Some(b)
}

pub fn split_csp(s: &str, _hits: &[&Parsed]) -> BTreeSet<String> {
    s.split(',').map(|x| x.to_string()).collect()
}

/// `tag=` value of a rule line, re-read from the option text (NetworkFilter::tag is crate-private).
pub fn tag_of_line(line: &str) -> Option<String> {
    let line = line.trim();
    let i = line.rfind('$')?;
    for o in line[i + 1..].split(',') {
        if let Some(v) = o.strip_prefix("tag=") {
            return Some(v.to_string());
        }
        if o == "tag" {
            return Some(String::new());
        }
    }
    None
}

pub struct Parsed {
    pub line: String,
    pub f: NetworkFilter,
    pub tag: Option<String>,
}

/// Every successfully parsed network rule of a list, in order.
pub fn parse_network(lines: &[String]) -> Vec<Parsed> {
    parse_network_opts(lines, std_opts())
}

pub fn parse_network_opts(lines: &[String], opts: ParseOptions) -> Vec<Parsed> {
    let mut out = vec![];
    for l in lines {
        if let Ok(ParsedFilter::Network(f)) = parse_filter(l, true, opts) {
            // last tag option wins in the parser; mirror that
            let mut tag = None;
            let tl = l.trim();
            if let Some(i) = tl.rfind('$') {
                for o in tl[i + 1..].split(',') {
                    if let Some(v) = o.strip_prefix("tag=") {
                        tag = Some(v.to_string());
                    } else if o == "tag" {
                        tag = Some(String::new());
                    }
                }
            }
            out.push(Parsed { line: l.clone(), f, tag });
        }
    }
    out
}

/// Rules that survive `$badfilter` cancellation (by the library's own ids, as C01 specifies).
pub fn active_rules(parsed: &[Parsed]) -> Vec<&Parsed> {
    let bad: HashSet<u64> = parsed
        .iter()
        .filter(|p| p.f.is_badfilter())
        .map(|p| p.f.get_id_without_badfilter())
        .collect();
    parsed
        .iter()
        .filter(|p| !p.f.is_badfilter() && !bad.contains(&p.f.get_id()))
        .collect()
}

pub fn rule_matches(f: &NetworkFilter, req: &Request) -> bool {
    f.matches(req, &mut RegexManager::default())
}

#[derive(Clone, Debug, PartialEq, Eq, Serialize, Deserialize)]
pub struct Verdict {
    pub matched: bool,
    pub important: bool,
    pub exception: bool,
    pub filter: bool,
    pub redirect: Option<String>,
    pub rewritten: Option<String>,
}

impl Verdict {
    pub fn of(r: &adblock::blocker::BlockerResult) -> Self {
        Verdict {
            matched: r.matched,
            important: r.important,
            exception: r.exception.is_some(),
            filter: r.filter.is_some(),
            redirect: r.redirect.clone(),
            rewritten: r.rewritten_url.clone(),
        }
    }
}

#[derive(Clone, Debug)]
pub struct SpecVerdict {
    pub matched: bool,
    pub important: bool,
    pub exception: bool,
    pub filter: bool,
    /// acceptable redirect answers (ties in priority leave the choice free)
    pub redirect: BTreeSet<Option<String>>,
    pub rewritten: Option<String>,
}

impl SpecVerdict {
    pub fn agrees(&self, v: &Verdict) -> Result<(), String> {
        let mut d = vec![];
        if self.matched != v.matched {
            d.push(format!("matched: spec {} engine {}", self.matched, v.matched));
        }
        if self.important != v.important {
            d.push(format!("important: spec {} engine {}", self.important, v.important));
        }
        if self.exception != v.exception {
            d.push(format!("exception: spec {} engine {}", self.exception, v.exception));
        }
        if self.filter != v.filter {
            d.push(format!("filter: spec {} engine {}", self.filter, v.filter));
        }
        if !self.redirect.contains(&v.redirect) {
            d.push(format!("redirect: spec one of {:?} engine {:?}", self.redirect, v.redirect));
        }
        if self.rewritten != v.rewritten {
            d.push(format!("rewritten: spec {:?} engine {:?}", self.rewritten, v.rewritten));
        }
        if d.is_empty() { Ok(()) } else { Err(d.join("; ")) }
    }
}

/// independent resource-store model: name/alias -> data URL, or None when not redirectable
pub fn redirect_data_url(resources: &[Resource], ident: &str) -> Option<String> {
    // first-added wins on name clashes (later ones are rejected by the store)
    let mut seen: Vec<&Resource> = vec![];
    for r in resources {
        let clash = std::iter::once(&r.name).chain(r.aliases.iter()).any(|n| {
            seen.iter().any(|s| &s.name == n || s.aliases.contains(n))
        });
        if clash {
            continue;
        }
        if let ResourceType::Mime(m) = &r.kind {
            if !r.dependencies.is_empty() && !m.supports_dependencies() {
                continue;
            }
            let Ok(dec) = BASE64_STANDARD.decode(&r.content) else { continue };
            if m.is_textual() && String::from_utf8(dec).is_err() {
                continue;
            }
        }
        seen.push(r);
    }
    let r = seen.iter().find(|r| r.name == ident).or_else(|| seen.iter().find(|r| r.aliases.iter().any(|a| a == ident)))?;
    // permission must be 0
    let perm_json = serde_json::to_value(&r.permission).ok()?;
    if perm_json.as_u64().unwrap_or(0) != 0 {
        return None;
    }
    match &r.kind {
        ResourceType::Template => None,
        ResourceType::Mime(MimeType::FnJavascript) => None,
        ResourceType::Mime(m) => {
            let s: &str = m.into();
            Some(format!("data:{};base64,{}", s, r.content))
        }
    }
}

pub fn split_priority(opt: &str) -> (&str, i32) {
    if let Some(i) = opt.rfind(':') {
        if let Ok(p) = opt[i + 1..].parse::<i32>() {
            return (&opt[..i], p);
        }
    }
    (opt, 0)
}

/// removeparam model on the raw URL string
pub fn remove_params(url: &str, names: &[&str]) -> Option<String> {
    let hash = url.find('#').unwrap_or(url.len());
    let q = url[..hash].find('?')?;
    let query = &url[q + 1..hash];
    let mut kept = vec![];
    let mut removed = false;
    for pair in query.split('&') {
        let drop = match pair.split_once('=') {
            Some((k, v)) => !v.is_empty() && names.iter().any(|n| *n == k),
            None => false,
        };
        if drop {
            removed = true;
        } else {
            kept.push(pair);
        }
    }
    if !removed {
        return None;
    }
    let joined = kept.join("&");
    let mut out = url[..q].to_string();
    if !joined.is_empty() {
        out.push('?');
        out.push_str(&joined);
    }
    out.push_str(&url[hash..]);
    Some(out)
}

pub struct Hit<'a> {
    pub p: &'a Parsed,
}

/// Combine per-rule hits with the documented precedence.
/// `hits` = rules of the active list that individually match the request.
pub fn combine(hits: &[&Parsed], tags: &HashSet<String>, req: &Request, raw_url: &str, resources: &[Resource]) -> SpecVerdict {
    let mut v = SpecVerdict {
        matched: false,
        important: false,
        exception: false,
        filter: false,
        redirect: BTreeSet::new(),
        rewritten: None,
    };
    if !req.is_supported {
        v.redirect.insert(None);
        return v;
    }
    let tag_ok = |p: &Parsed| p.tag.as_ref().map(|t| tags.contains(t)).unwrap_or(true);
    let plain = |p: &Parsed| !p.f.is_csp() && !p.f.is_removeparam() && !p.f.is_generic_hide();
    let imp = hits.iter().any(|p| plain(p) && !p.f.is_exception() && p.f.is_important() && tag_ok(p));
    let blk = hits.iter().any(|p| {
        plain(p)
            && !p.f.is_exception()
            && !p.f.is_important()
            && tag_ok(p)
            && (!p.f.is_redirect() || p.f.also_block_redirect())
    });
    let exc = hits.iter().any(|p| plain(p) && p.f.is_exception() && tag_ok(p));
    v.important = imp;
    v.filter = imp || blk;
    v.exception = !imp && blk && exc;
    v.matched = imp || (blk && !exc);

    // redirects
    let redirs: Vec<&&Parsed> = hits.iter().filter(|p| p.f.is_redirect() && tag_ok(p)).collect();
    let excepted: Vec<&str> = redirs
        .iter()
        .filter(|p| p.f.is_exception())
        .filter_map(|p| p.f.modifier_option.as_deref())
        .map(|o| split_priority(o).0)
        .collect();
    let cands: Vec<(&str, i32)> = redirs
        .iter()
        .filter(|p| !p.f.is_exception())
        .filter_map(|p| p.f.modifier_option.as_deref())
        .map(split_priority)
        .filter(|(n, _)| !excepted.contains(n))
        .collect();
    if let Some(maxp) = cands.iter().map(|c| c.1).max() {
        for (n, p) in &cands {
            if *p == maxp {
                v.redirect.insert(redirect_data_url(resources, n));
            }
        }
    } else {
        v.redirect.insert(None);
    }

    // removeparam
    if !imp {
        let names: Vec<&str> = hits
            .iter()
            .filter(|p| p.f.is_removeparam() && !p.f.is_csp() && tag_ok(p))
            .filter_map(|p| p.f.modifier_option.as_deref())
            .collect();
        if !names.is_empty() {
            v.rewritten = remove_params(raw_url, &names);
        }
    }
    v
}

/// csp specification: Some(set of directives) or None
pub fn combine_csp(hits: &[&Parsed], tags: &HashSet<String>, req: &Request) -> Option<BTreeSet<String>> {
    use adblock::request::RequestType;
    if req.request_type != RequestType::Document && req.request_type != RequestType::Subdocument {
        return None;
    }
    let tag_ok = |p: &Parsed| p.tag.as_ref().map(|t| tags.contains(t)).unwrap_or(true);
    let csp: Vec<&&Parsed> = hits.iter().filter(|p| p.f.is_csp() && tag_ok(p)).collect();
    let mut en = BTreeSet::new();
    let mut dis = BTreeSet::new();
    for p in &csp {
        if p.f.is_exception() {
            match &p.f.modifier_option {
                None => return None,
                Some(d) => {
                    dis.insert(d.clone());
                }
            }
        } else if let Some(d) = &p.f.modifier_option {
            en.insert(d.clone());
        }
    }
    let rem: BTreeSet<String> = en.difference(&dis).cloned().collect();
    if rem.is_empty() { None } else { Some(rem) }
}

pub fn csp_set(s: &Option<String>, known: &BTreeSet<String>) -> Option<BTreeSet<String>> {
    // directives themselves may contain commas?  our generator's never do; split on ','
    let _ = known;
    s.as_ref().map(|s| s.split(',').map(|x| x.to_string()).collect())
}

pub fn hits_of<'a>(active: &[&'a Parsed], req: &Request) -> Vec<&'a Parsed> {
    active.iter().filter(|p| rule_matches(&p.f, req)).cloned().collect()
}

// ---------------------------------------------------------------------------------------------
// all observable answers of an engine for the queries of a FullCase, as comparable strings

pub type Answers = Vec<String>;

pub fn engine_answers(e: &Engine, c: &crate::gen::FullCase, only: Option<usize>) -> Answers {
    let mut out = vec![];
    let mut k = 0;
    let mut want = |k: &mut usize| {
        let r = only.map(|o| o == *k).unwrap_or(true);
        *k += 1;
        r
    };
    for r in &c.reqs {
        if !want(&mut k) {
            continue;
        }
        if let Some(q) = mk_request(r) {
            let v = Verdict::of(&e.check_network_request(&q));
            let csp = e.get_csp_directives(&q).map(|s| split_csp(&s, &[]));
            out.push(format!("net {:?} -> {:?} csp {:?}", r, v, csp));
        }
    }
    for p in &c.pages {
        if !want(&mut k) {
            continue;
        }
        let u = e.url_cosmetic_resources(p);
        let mut hs: Vec<_> = u.hide_selectors.iter().cloned().collect();
        hs.sort();
        let mut pa: Vec<_> = u.procedural_actions.iter().cloned().collect();
        pa.sort();
        let mut ex: Vec<_> = u.exceptions.iter().cloned().collect();
        ex.sort();
        // scriptlets are emitted in hash-map order: compare as a sorted multiset of lines
        let mut js: Vec<&str> = u.injected_script.lines().collect();
        js.sort();
        out.push(format!("page {} -> hide {:?} proc {:?} exc {:?} gh {} js {:?}", p, hs, pa, ex, u.generichide, js));
        let mut sel = e.hidden_class_id_selectors(&c.classes, &c.ids, &u.exceptions);
        sel.sort();
        out.push(format!("classid {} -> {:?}", p, sel));
    }
    out
}

