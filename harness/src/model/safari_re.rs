//! Recogniser for the regular-expression subset WebKit content blockers accept in `url-filter`:
//! literals, `.`, character classes with ranges, groups, the quantifiers `? + *`, `^` at the start
//! and `$` at the end, escapes of punctuation. No alternation, no `{m,n}`, no `\d \w \b`, no
//! back-references, ASCII only.

pub fn accepts(re: &str) -> Result<(), String> {
    if !re.is_ascii() {
        return Err("non-ASCII".into());
    }
    let b: Vec<char> = re.chars().collect();
    let mut i = 0;
    let mut depth = 0usize;
    let mut can_quantify = false;
    while i < b.len() {
        let c = b[i];
        match c {
            '^' => {
                if i != 0 {
                    return Err(format!("'^' at offset {} (only allowed at the start)", i));
                }
                can_quantify = false;
                i += 1;
            }
            '$' => {
                if i != b.len() - 1 {
                    return Err(format!("'$' at offset {} (only allowed at the end)", i));
                }
                can_quantify = false;
                i += 1;
            }
            '|' => return Err(format!("alternation at offset {}", i)),
            '{' | '}' => return Err(format!("unescaped '{}' at offset {}", c, i)),
            '*' | '+' | '?' => {
                if !can_quantify {
                    return Err(format!("quantifier '{}' at offset {} has nothing to repeat", c, i));
                }
                can_quantify = false;
                i += 1;
            }
            '(' => {
                depth += 1;
                can_quantify = false;
                i += 1;
                if i < b.len() && b[i] == '?' {
                    return Err(format!("group modifier '(?' at offset {}", i));
                }
            }
            ')' => {
                if depth == 0 {
                    return Err(format!("unbalanced ')' at offset {}", i));
                }
                depth -= 1;
                can_quantify = true;
                i += 1;
            }
            '[' => {
                i += 1;
                if i < b.len() && b[i] == '^' {
                    i += 1;
                }
                let mut n = 0;
                loop {
                    if i >= b.len() {
                        return Err("unterminated character class".into());
                    }
                    if b[i] == ']' && n > 0 {
                        break;
                    }
                    if b[i] == '\\' {
                        i += 1;
                        if i >= b.len() {
                            return Err("dangling backslash in class".into());
                        }
                        if b[i].is_ascii_alphanumeric() {
                            return Err(format!("class escape '\\{}'", b[i]));
                        }
                    }
                    i += 1;
                    n += 1;
                }
                i += 1;
                can_quantify = true;
            }
            ']' => return Err(format!("unbalanced ']' at offset {}", i)),
            '\\' => {
                if i + 1 >= b.len() {
                    return Err("dangling backslash".into());
                }
                if b[i + 1].is_ascii_alphanumeric() {
                    return Err(format!("escape '\\{}' at offset {}", b[i + 1], i));
                }
                i += 2;
                can_quantify = true;
            }
            _ => {
                i += 1;
                can_quantify = true;
            }
        }
    }
    if depth != 0 {
        return Err("unbalanced '('".into());
    }
    Ok(())
}
