//! Reference models: independent of the library's matching code.
pub mod pat;
pub mod opts;
pub mod safari_re;
