//! Reference semantics of rule options (resource types, party, initiator domains), written from
//! the option documentation; independent of the library's bit masks.

use serde::{Deserialize, Serialize};

pub const NETWORK_TYPES: &[&str] = &[
    "script", "image", "stylesheet", "xmlhttprequest", "subdocument", "font", "media", "object", "ping", "websocket", "other",
];

/// canonical resource type of a request-type string (None = matches no type option at all)
pub fn request_type_class(raw: &str, scheme: &str) -> Option<&'static str> {
    if scheme == "ws" || scheme == "wss" {
        return Some("websocket");
    }
    Some(match raw {
        "beacon" | "ping" => "ping",
        "csp_report" => return None,
        "document" | "main_frame" => "document",
        "font" => "font",
        "image" | "imageset" => "image",
        "media" => "media",
        "object" | "object_subrequest" => "object",
        "script" => "script",
        "stylesheet" => "stylesheet",
        "sub_frame" | "subdocument" => "subdocument",
        "websocket" => "websocket",
        "xhr" | "xmlhttprequest" => "xmlhttprequest",
        _ => "other",
    })
}

/// canonical name of a type option spelling
pub fn type_option_class(opt: &str) -> Option<&'static str> {
    Some(match opt {
        "script" => "script",
        "image" => "image",
        "stylesheet" | "css" => "stylesheet",
        "xmlhttprequest" | "xhr" => "xmlhttprequest",
        "subdocument" | "frame" => "subdocument",
        "font" => "font",
        "media" => "media",
        "object" | "object-subrequest" => "object",
        "ping" | "beacon" => "ping",
        "websocket" => "websocket",
        "other" => "other",
        "document" | "doc" => "document",
        _ => return None,
    })
}

#[derive(Clone, Debug, Serialize, Deserialize, PartialEq)]
pub enum Modifier {
    None,
    Csp,
    Removeparam,
}

#[derive(Clone, Debug, Serialize, Deserialize)]
pub struct OptAst {
    /// (option spelling, negated)
    pub types: Vec<(String, bool)>,
    /// None | "third-party" | "~third-party" | "3p" | "~3p" | "first-party" | "~first-party" | "1p" | "~1p"
    pub party: Option<String>,
    /// a second party option (options accumulate: contradictory ones leave nothing)
    #[serde(default)]
    pub party2: Option<String>,
    /// (domain, negated)
    pub domains: Vec<(String, bool)>,
    pub important: bool,
    pub exception: bool,
    pub modifier: Modifier,
    /// the rule is of the form `||host^` with no type option at all
    pub host_caret_form: bool,
}

pub struct ReqFacts<'a> {
    pub raw_type: &'a str,
    pub scheme: &'a str,
    pub third_party: bool,
    /// lower-case initiator host, if the request has one
    pub source_host: Option<&'a str>,
}

impl OptAst {
    pub fn render(&self) -> String {
        let mut o: Vec<String> = vec![];
        for (t, neg) in &self.types {
            o.push(format!("{}{}", if *neg { "~" } else { "" }, t));
        }
        if let Some(p) = &self.party {
            o.push(p.clone());
        }
        if let Some(p) = &self.party2 {
            o.push(p.clone());
        }
        if !self.domains.is_empty() {
            o.push(format!(
                "domain={}",
                self.domains.iter().map(|(d, n)| format!("{}{}", if *n { "~" } else { "" }, d)).collect::<Vec<_>>().join("|")
            ));
        }
        if self.important {
            o.push("important".into());
        }
        match self.modifier {
            Modifier::None => {}
            Modifier::Csp => o.push("csp=script-src 'none'".into()),
            Modifier::Removeparam => o.push("removeparam=p".into()),
        }
        o.join(",")
    }

    pub fn type_applies(&self, r: &ReqFacts) -> bool {
        let Some(t) = request_type_class(r.raw_type, r.scheme) else { return false };
        let pos: Vec<&str> = self.types.iter().filter(|(_, n)| !*n).filter_map(|(o, _)| type_option_class(o)).collect();
        let neg: Vec<&str> = self.types.iter().filter(|(_, n)| *n).filter_map(|(o, _)| type_option_class(o)).collect();
        let mut set: Vec<&str> = pos.clone();
        let removeparam = self.modifier == Modifier::Removeparam;
        if !neg.is_empty() && !removeparam {
            set.extend_from_slice(NETWORK_TYPES);
        }
        if pos.is_empty() {
            if removeparam {
                set.extend_from_slice(&["document", "subdocument", "xmlhttprequest"]);
            } else {
                set.extend_from_slice(NETWORK_TYPES);
            }
        }
        if self.modifier == Modifier::Csp {
            set.push("document");
        }
        if self.host_caret_form && pos.is_empty() && neg.is_empty() && !removeparam {
            set.push("document");
        }
        set.retain(|x| !neg.contains(x));
        if t == "document" {
            // exceptions apply to documents as well
            set.contains(&"document") || self.exception
        } else {
            set.contains(&t)
        }
    }

    pub fn party_applies(&self, r: &ReqFacts) -> bool {
        // every party option restricts on its own; two contradictory ones leave no request
        [&self.party, &self.party2].iter().all(|p| match p.as_deref() {
            None => true,
            Some("third-party") | Some("3p") | Some("~first-party") | Some("~1p") => r.third_party,
            Some("~third-party") | Some("~3p") | Some("first-party") | Some("1p") => !r.third_party,
            Some(_) => true,
        })
    }

    pub fn domains_apply(&self, r: &ReqFacts) -> bool {
        let inc: Vec<&str> = self.domains.iter().filter(|(_, n)| !*n).map(|(d, _)| d.as_str()).collect();
        let exc: Vec<&str> = self.domains.iter().filter(|(_, n)| *n).map(|(d, _)| d.as_str()).collect();
        // hosts and list entries are compared in their ASCII (punycode) form
        let asc = |x: &str| if x.is_ascii() { x.to_string() } else { idna::domain_to_ascii(x).unwrap_or_else(|_| x.to_string()) };
        let covers = |d: &str, host: &str| {
            let (d, host) = (asc(d), asc(host));
            host == d || host.ends_with(&format!(".{}", d))
        };
        match r.source_host {
            None => inc.is_empty(),
            Some(h) => {
                if !inc.is_empty() && !inc.iter().any(|d| covers(d, h)) {
                    return false;
                }
                if exc.iter().any(|d| covers(d, h)) {
                    return false;
                }
                true
            }
        }
    }

    pub fn applies(&self, r: &ReqFacts) -> bool {
        self.type_applies(r) && self.party_applies(r) && self.domains_apply(r)
    }
}
