//! Reference semantics of ABP/uBO patterns, by direct backtracking over the pattern AST.
//! Shares no code with the library (no regex crate involved).

#[derive(Clone, Debug, PartialEq)]
pub enum Piece {
    Lit(char),
    Star,
    Caret,
}

#[derive(Clone, Debug, PartialEq)]
pub enum Anchor {
    None,
    Left,
    Host,
}

#[derive(Clone, Debug)]
pub struct Pat {
    pub anchor: Anchor,
    /// for Anchor::Host: the host text (lower-cased)
    pub host: String,
    /// what follows the anchor (for Host: what follows the host text)
    pub body: Vec<Piece>,
    pub right: bool,
}

fn pieces(s: &str) -> Vec<Piece> {
    s.chars()
        .map(|c| match c {
            '*' => Piece::Star,
            '^' => Piece::Caret,
            c => Piece::Lit(c),
        })
        .collect()
}

/// Parse the pattern part of a rule (no `@@`, no `$options`).
pub fn parse(p: &str) -> Pat {
    let (anchor, rest) = if let Some(r) = p.strip_prefix("||") {
        (Anchor::Host, r)
    } else if let Some(r) = p.strip_prefix('|') {
        (Anchor::Left, r)
    } else {
        (Anchor::None, p)
    };
    let (right, rest) = match rest.strip_suffix('|') {
        Some(r) => (true, r),
        None => (false, rest),
    };
    if anchor == Anchor::Host {
        let cut = rest.find(|c| c == '/' || c == '^' || c == '*').unwrap_or(rest.len());
        Pat { anchor, host: rest[..cut].to_lowercase(), body: pieces(&rest[cut..]), right }
    } else {
        Pat { anchor, host: String::new(), body: pieces(rest), right }
    }
}

pub fn is_sep(c: char) -> bool {
    !(c.is_ascii_alphanumeric() || c == '_' || c == '-' || c == '.' || c == '%')
}

/// The recursive definition (kept as the specification; exponential on patterns with many `*`):
///   m([], i)        = !right || i == len
///   m(Lit c :: r, i) = i < len && url[i] ~ c && m(r, i + 1)
///   m(Star :: r, i)  = exists j >= i. m(r, j)
///   m(Caret :: r, i) = (i < len && sep(url[i]) && m(r, i + 1)) || (r == [] && i == len)
#[cfg(test)]
fn m_rec(ps: &[Piece], url: &[char], i: usize, right: bool) -> bool {
    match ps.first() {
        None => !right || i == url.len(),
        Some(Piece::Lit(c)) => i < url.len() && url[i].to_ascii_lowercase() == c.to_ascii_lowercase() && m_rec(&ps[1..], url, i + 1, right),
        Some(Piece::Star) => (i..=url.len()).any(|j| m_rec(&ps[1..], url, j, right)),
        Some(Piece::Caret) => (i < url.len() && is_sep(url[i]) && m_rec(&ps[1..], url, i + 1, right)) || (ps.len() == 1 && i == url.len()),
    }
}

/// The same function tabulated: row[i] = m(ps[j..], i), filled from the last piece backwards
/// (O(|ps| * |url|); the recursion above needs exponential time on long patterns with many `*`).
fn table(ps: &[Piece], url: &[char], right: bool) -> Vec<bool> {
    let n = url.len();
    let k = ps.len();
    let mut next: Vec<bool> = (0..=n).map(|i| !right || i == n).collect();
    for j in (0..k).rev() {
        let mut cur = vec![false; n + 1];
        match &ps[j] {
            Piece::Lit(c) => {
                for i in 0..n {
                    cur[i] = url[i].to_ascii_lowercase() == c.to_ascii_lowercase() && next[i + 1];
                }
            }
            Piece::Star => {
                let mut any = false;
                for i in (0..=n).rev() {
                    any |= next[i];
                    cur[i] = any;
                }
            }
            Piece::Caret => {
                for i in 0..n {
                    cur[i] = is_sep(url[i]) && next[i + 1];
                }
                if j == k - 1 {
                    cur[n] = true;
                }
            }
        }
        next = cur;
    }
    next
}

fn m(ps: &[Piece], url: &[char], i: usize, right: bool) -> bool {
    i <= url.len() && table(ps, url, right)[i]
}

/// `url`: the normalised request URL; `hostname`: its host; `host_start`: char offset of the host in url.
pub fn matches(p: &Pat, url: &str, hostname: &str, host_start: usize) -> bool {
    let u: Vec<char> = url.chars().collect();
    match p.anchor {
        Anchor::None => table(&p.body, &u, p.right).iter().any(|b| *b),
        Anchor::Left => m(&p.body, &u, 0, p.right),
        Anchor::Host => {
            let h: Vec<char> = hostname.to_lowercase().chars().collect();
            let f: Vec<char> = p.host.chars().collect();
            if f.is_empty() {
                return false; // outside the compared domain; callers exclude it
            }
            let star_next = matches!(p.body.first(), Some(Piece::Star));
            for k in 0..=h.len().saturating_sub(f.len()) {
                if k + f.len() > h.len() || h[k..k + f.len()] != f[..] {
                    continue;
                }
                let left_ok = k == 0 || h[k - 1] == '.' || f[0] == '.';
                let e = k + f.len();
                let right_ok = e == h.len() || h[e] == '.' || f[f.len() - 1] == '.' || star_next;
                if left_ok && right_ok && m(&p.body, &u, host_start + e, p.right) {
                    return true;
                }
            }
            false
        }
    }
}

/// Reason why a pattern text is outside the strictly compared domain (None = inside).
pub fn degenerate(p: &str) -> Option<&'static str> {
    if p.contains('\\') {
        return Some("backslash");
    }
    if p.contains("**") {
        return Some("doubled *");
    }
    if p.contains("^^") {
        return Some("doubled ^");
    }
    let ast = parse(p);
    let body_txt: String = {
        let r = p.strip_prefix("||").or_else(|| p.strip_prefix('|')).unwrap_or(p);
        r.strip_suffix('|').unwrap_or(r).to_string()
    };
    if body_txt.is_empty() {
        return Some("empty body");
    }
    if body_txt.starts_with('*') {
        return Some("leading *");
    }
    if body_txt.ends_with('*') {
        return Some("trailing *");
    }
    if body_txt.len() > 1 && body_txt.starts_with('/') && body_txt.ends_with('/') {
        return Some("body starts and ends with / (full regex)");
    }
    if ast.anchor == Anchor::Host {
        if ast.host.is_empty() {
            return Some("empty host");
        }
        if ast.host.starts_with("www.") {
            return Some("host starts with www. (stripped by design)");
        }
        if ast.right && matches!(ast.body.last(), Some(Piece::Caret)) {
            return Some("||host...^|");
        }
        if ast.right && matches!(ast.body.first(), Some(Piece::Star)) {
            return Some("||host*...|");
        }
    }
    None
}


#[cfg(test)]
mod tests {
    use super::*;

    /// the tabulated matcher equals the recursive specification on every pattern body of length
    /// <= 5 over {a b / * ^} x every URL of length <= 5 over {a b / .} x every start x both anchors
    #[test]
    fn table_equals_recursion() {
        let pal = [Piece::Lit('a'), Piece::Lit('b'), Piece::Lit('/'), Piece::Star, Piece::Caret];
        let ual = ['a', 'B', '/', '.'];
        let mut bodies: Vec<Vec<Piece>> = vec![vec![]];
        let mut frontier: Vec<Vec<Piece>> = vec![vec![]];
        for _ in 0..5 {
            let mut nf = vec![];
            for b in &frontier {
                for p in &pal {
                    let mut x = b.clone();
                    x.push(p.clone());
                    nf.push(x);
                }
            }
            bodies.extend(nf.iter().cloned());
            frontier = nf;
        }
        let mut urls: Vec<Vec<char>> = vec![vec![]];
        let mut fr: Vec<Vec<char>> = vec![vec![]];
        for _ in 0..5 {
            let mut nf = vec![];
            for u in &fr {
                for c in &ual {
                    let mut x = u.clone();
                    x.push(*c);
                    nf.push(x);
                }
            }
            urls.extend(nf.iter().cloned());
            fr = nf;
        }
        let mut n = 0u64;
        for b in &bodies {
            for u in &urls {
                for right in [false, true] {
                    let t = table(b, u, right);
                    for i in 0..=u.len() {
                        assert_eq!(t[i], m_rec(b, u, i, right), "body {:?} url {:?} i {} right {}", b, u, i, right);
                        n += 1;
                    }
                }
            }
        }
        assert!(n > 10_000_000);
    }
}
