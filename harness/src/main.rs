//! vh — verification harness for brave/adblock-rust (property-based testing and fuzzing).
//!
//!   vh check <ID> [--tier quick|thorough]     run the check of one property
//!   vh replay <ID> <file.json>                re-run one saved case without any generator
//!   vh worker <mode> ...                      child-process modes (C09/C10/C19)

mod eng;
mod gen;
mod model;
mod props;
mod run;

use run::{Ctx, Tier};

/// Global allocator wrapper: remembers the largest single allocation request of the current
/// thread (only requests >= 1 MiB are looked at) and refuses requests >= 1 GiB, which makes the
/// process abort instead of thrashing the machine (C10 observes both).
pub mod track_alloc {
    use std::alloc::{GlobalAlloc, Layout, System};
    use std::cell::Cell;
    thread_local! {
        pub static MAX_BIG: Cell<usize> = const { Cell::new(0) };
    }
    pub const REFUSE: usize = 1 << 30;
    pub struct TrackAlloc;
    #[inline]
    fn note(size: usize) -> bool {
        if size >= (1 << 20) {
            let _ = MAX_BIG.try_with(|m| {
                if size > m.get() {
                    m.set(size)
                }
            });
            if size >= REFUSE {
                return false;
            }
        }
        true
    }
    unsafe impl GlobalAlloc for TrackAlloc {
        unsafe fn alloc(&self, l: Layout) -> *mut u8 {
            if !note(l.size()) {
                return std::ptr::null_mut();
            }
            System.alloc(l)
        }
        unsafe fn alloc_zeroed(&self, l: Layout) -> *mut u8 {
            if !note(l.size()) {
                return std::ptr::null_mut();
            }
            System.alloc_zeroed(l)
        }
        unsafe fn dealloc(&self, p: *mut u8, l: Layout) {
            System.dealloc(p, l)
        }
        unsafe fn realloc(&self, p: *mut u8, l: Layout, new_size: usize) -> *mut u8 {
            if !note(new_size) {
                return std::ptr::null_mut();
            }
            System.realloc(p, l, new_size)
        }
    }
    pub fn reset() {
        MAX_BIG.with(|m| m.set(0));
    }
    pub fn max_big() -> usize {
        MAX_BIG.with(|m| m.get())
    }
}

#[global_allocator]
static GLOBAL: track_alloc::TrackAlloc = track_alloc::TrackAlloc;

fn usage() -> ! {
    eprintln!("usage: vh check <ID> [--tier quick|thorough] | vh replay <ID> <file> | vh worker <mode> ...");
    std::process::exit(2);
}

fn main() {
    // backtraces off: panics are captured by our hook
    std::env::set_var("RUST_BACKTRACE", "0");
    run::install_panic_hook();
    let args: Vec<String> = std::env::args().collect();
    if args.len() < 2 {
        usage();
    }
    let seed: u64 = std::env::var("VERIF_SEED").ok().and_then(|s| s.trim().parse::<i64>().ok()).map(|v| v as u64).unwrap_or(0);
    match args[1].as_str() {
        "check" => {
            if args.len() < 3 {
                usage();
            }
            let id = args[2].to_uppercase();
            let mut tier = match std::env::var("VERIF_TIER").ok().as_deref() {
                Some("thorough") => Tier::Thorough,
                _ => Tier::Quick,
            };
            let mut i = 3;
            while i < args.len() {
                if args[i] == "--tier" && i + 1 < args.len() {
                    tier = match args[i + 1].as_str() {
                        "thorough" => Tier::Thorough,
                        "quick" => Tier::Quick,
                        _ => usage(),
                    };
                    i += 1;
                }
                i += 1;
            }
            let Some(entry) = props::lookup(&id) else {
                eprintln!("unknown property {}", id);
                std::process::exit(2);
            };
            let mut ctx = Ctx::new(entry.id, tier, seed);
            (entry.check)(&mut ctx);
            std::process::exit(ctx.finish());
        }
        "replay" => {
            if args.len() < 4 {
                usage();
            }
            let id = args[2].to_uppercase();
            let Some(entry) = props::lookup(&id) else {
                eprintln!("unknown property {}", id);
                std::process::exit(2);
            };
            let txt = std::fs::read_to_string(&args[3]).unwrap_or_else(|e| {
                eprintln!("INFRA: cannot read {}: {}", args[3], e);
                std::process::exit(2);
            });
            let v: serde_json::Value = serde_json::from_str(&txt).unwrap_or_else(|e| {
                eprintln!("INFRA: bad json {}: {}", args[3], e);
                std::process::exit(2);
            });
            let mut ctx = Ctx::new(entry.id, Tier::Quick, seed);
            ctx.replay_mode = true;
            (entry.replay)(&mut ctx, &v);
            std::process::exit(ctx.finish());
        }
        "worker" => {
            std::process::exit(props::worker(&args[2..]));
        }
        _ => usage(),
    }
}
