//! C17 — generic class/id lookup returns exactly the unexcepted generic selectors.

use crate::eng::*;
use crate::run::{drive, replay_file, Case, Ctx, Obs, Tape};
use serde::{Deserialize, Serialize};
use serde_json::Value;
use std::collections::{BTreeSet, HashSet};

#[derive(Clone, Debug, Serialize, Deserialize)]
pub struct GenRule {
    /// '.' or '#', or ' ' for selectors that start with neither
    pub sigil: char,
    /// escaped identifier text as written in the rule (empty for misc selectors)
    pub ident_text: String,
    /// the identifier after CSS unescaping
    pub ident_value: String,
    /// what follows the leading simple selector ("" = simple rule)
    pub tail: String,
    /// written as `~neg.example##sel` (negated-only specific rule => hidden generic rule)
    pub via_negation: bool,
}

impl GenRule {
    pub fn selector(&self) -> String {
        // the rule parser trims the line, so an escape-terminating space at the very end is dropped
        if self.sigil == ' ' { self.tail.clone() } else { format!("{}{}{}", self.sigil, self.ident_text, self.tail).trim_end().to_string() }
    }
    pub fn line(&self) -> String {
        if self.via_negation { format!("~neg.example##{}", self.selector()) } else { format!("##{}", self.selector()) }
    }
}

#[derive(Clone, Debug, Serialize, Deserialize)]
pub struct GenCase {
    pub rules: Vec<GenRule>,
    pub classes: Vec<String>,
    pub ids: Vec<String>,
    pub exceptions: Vec<String>,
    /// indices of rules written with whitespace between `##` and the selector
    #[serde(default)]
    pub spaced: Vec<usize>,
}

impl Case for GenCase {
    fn smaller(&self) -> Vec<Self> {
        let mut v = vec![];
        for i in 0..self.rules.len() {
            let mut c = self.clone();
            c.rules.remove(i);
            v.push(c);
        }
        for i in 0..self.classes.len() {
            let mut c = self.clone();
            c.classes.remove(i);
            v.push(c);
        }
        for i in 0..self.ids.len() {
            let mut c = self.clone();
            c.ids.remove(i);
            v.push(c);
        }
        for i in 0..self.exceptions.len() {
            let mut c = self.clone();
            c.exceptions.remove(i);
            v.push(c);
        }
        v
    }
}

pub fn check_case(c: &GenCase, obs: &mut Obs) -> Result<(), String> {
    let lines: Vec<String> = c.rules.iter().enumerate().map(|(i, r)| if c.spaced.contains(&i) { r.line().replacen("##", if i % 2 == 0 { "## " } else { "##  \t" }, 1) } else { r.line() }).collect();
    if !c.spaced.is_empty() {
        obs.label("space-after-marker");
    }
    let e = build_engine(&lines, false, true, &[]);
    let x: HashSet<String> = c.exceptions.iter().cloned().collect();
    let got: BTreeSet<String> = e.hidden_class_id_selectors(&c.classes, &c.ids, &x).into_iter().collect();
    obs.inner_evals += 1;
    // the same lookup on an engine loaded from the serialized rules
    let mut e_rt = adblock::Engine::new(true);
    e_rt.deserialize(&e.serialize_raw().map_err(|x| format!("serialize: {:?}", x))?).map_err(|x| format!("deserialize of own bytes: {:?}", x))?;
    let got_rt: BTreeSet<String> = e_rt.hidden_class_id_selectors(&c.classes, &c.ids, &x).into_iter().collect();
    if got_rt != got {
        return Err(format!("hidden_class_id_selectors(classes {:?}, ids {:?}, exceptions {:?}) = {:?} on the built engine but {:?} on the engine loaded from its serialized bytes; rules {:?}", c.classes, c.ids, c.exceptions, got, got_rt, lines));
    }
    // expected: selectors whose unescaped leading class/id is among the given names, minus exceptions.
    // A simple rule without escapes is returned as ".name"/"#name"; everything else as written.
    let mut want: BTreeSet<String> = BTreeSet::new();
    for r in &c.rules {
        let named = match r.sigil {
            '.' => c.classes.contains(&r.ident_value),
            '#' => c.ids.contains(&r.ident_value),
            _ => false,
        };
        if named {
            let sel = r.selector();
            if !x.contains(&sel) {
                want.insert(sel);
            }
        }
    }
    if got != want {
        return Err(format!("hidden_class_id_selectors(classes {:?}, ids {:?}, exceptions {:?}) = {:?}, expected {:?}; rules {:?}", c.classes, c.ids, c.exceptions, got, want, lines));
    }
    if !want.is_empty() {
        obs.label("lookup-hit");
    }
    // partition: each generic selector is reachable through exactly one of the two APIs
    let site = e.url_cosmetic_resources("https://some-page.example.org/");
    for r in &c.rules {
        obs.inner_evals += 1;
        let sel = r.selector();
        let by_lookup = match r.sigil {
            '.' => e.hidden_class_id_selectors([r.ident_value.as_str()], Vec::<String>::new(), &HashSet::new()).contains(&sel),
            '#' => e.hidden_class_id_selectors(Vec::<String>::new(), [r.ident_value.as_str()], &HashSet::new()).contains(&sel),
            _ => false,
        };
        let by_site = site.hide_selectors.contains(&sel);
        if by_lookup == by_site {
            return Err(format!(
                "generic rule {:?} (key {:?}) is reachable through {} : class/id lookup {}, per-site hide selectors {}",
                r.line(), r.ident_value, if by_lookup { "both APIs" } else { "neither API" }, by_lookup, by_site
            ));
        }
        let want_lookup = r.sigil != ' ';
        if by_lookup != want_lookup {
            return Err(format!("generic rule {:?}: expected to be served by the {} API", r.line(), if want_lookup { "class/id lookup" } else { "per-site" }));
        }
    }
    let has_escape = c.rules.iter().any(|r| r.ident_text.contains('\\'));
    let shares_key = c.rules.iter().any(|a| !a.tail.is_empty() && a.sigil != ' ' && c.rules.iter().any(|b| b.tail.is_empty() && b.sigil == a.sigil && b.ident_value == a.ident_value));
    if has_escape || shares_key {
        obs.nontrivial = true;
    }
    if has_escape { obs.label("escaped-identifier"); }
    if shares_key { obs.label("complex-shares-key-with-simple"); }
    Ok(())
}

const IDENT_PLAIN: &[&str] = &[
    "ad", "ads", "banner", "x", "a-b", "a_b", "Ad", "ünï", "日本", "b1", "-x", "_y", "a1b2",
    // identifier characters that are not alphanumeric: combining marks (virama, acute), ZWNJ/ZWJ, connector punctuation
    "विज्ञापन", "تبلیغ\u{200c}ها", "a\u{0301}b", "x\u{203f}y", "क\u{200d}ष", "e\u{0301}",
];

/// (escaped text, unescaped value)
fn ident(t: &mut Tape) -> (String, String) {
    if t.chance(1, 2) {
        let s = t.choose(IDENT_PLAIN).to_string();
        return (s.clone(), s);
    }
    let n = 1 + t.pick(5);
    let mut text = String::new();
    let mut value = String::new();
    let mut prev_open_hex = false; // previous atom was a hex escape without terminator
    let mut last_unterminated = false; // ... of any width: a following whitespace would be eaten
    for _ in 0..n {
        match t.pick(8) {
            0..=2 => {
                let mut s = t.choose(&["a", "b", "x", "ad", "q9", "-", "_", "Z", "é", "g", "7", "f0"]).to_string();
                if prev_open_hex && s.chars().next().map(|c| c.is_ascii_hexdigit() || c == ' ').unwrap_or(false) {
                    s = "x".to_string();
                }
                text.push_str(&s);
                value.push_str(&s);
                prev_open_hex = false;
                last_unterminated = false;
            }
            3..=4 => {
                let ch = t.choose(&[':', '.', '(', ')', ',', ' ', '\'', '/', '<', '>', '!', '[', '@', '%', '+', '~', '*', '=']);
                text.push('\\');
                text.push(ch);
                value.push(ch);
                prev_open_hex = false;
                last_unterminated = false;
            }
            _ => {
                let cp = t.choose(&[0x31u32, 0x33, 0x5f, 0x41, 0x7a, 0x2d, 0xe9, 0x20ac, 0x1f600, 0x3a, 0x20, 0x10ffff, 0x7f]);
                let ch = char::from_u32(cp).unwrap();
                let width = match t.pick(4) {
                    0 => 6,
                    1 => format!("{:x}", cp).len() + 1,
                    _ => format!("{:x}", cp).len(),
                }
                .min(6);
                let upper = t.chance(1, 3);
                let mut hex = format!("{:0width$x}", cp, width = width);
                if upper {
                    hex = hex.to_uppercase();
                }
                let space = t.chance(1, 2);
                text.push('\\');
                text.push_str(&hex);
                if space {
                    text.push(' ');
                    prev_open_hex = false;
                    last_unterminated = false;
                } else {
                    prev_open_hex = hex.len() < 6;
                    last_unterminated = true;
                }
                value.push(ch);
            }
        }
    }
    if prev_open_hex || last_unterminated {
        // a following tail could start with a hex digit or a space (CSS eats one whitespace after
        // a hex escape of any width): close the escape
        text.push(' ');
    }
    if text.ends_with("\\ ") {
        // an escaped space at the very end of a rule line would be trimmed away by the parser
        text.push('z');
        value.push('z');
    }
    (text, value)
}

pub fn decode(t: &mut Tape) -> GenCase {
    let n = if t.chance(1, 40) { 30 + t.pick(300) } else { 1 + t.pick(8) };
    let mut rules: Vec<GenRule> = vec![];
    for _ in 0..n {
        let r = match t.pick(10) {
            0..=1 => {
                let tail = t.choose(&["div.ad", "a[href^=\"http\"]", "[data-ad]", "iframe[src*=\"ads\"]", "*", "div > .ad", "span#x", "body .banner", ":root .x"]).to_string();
                GenRule { sigil: ' ', ident_text: String::new(), ident_value: String::new(), tail, via_negation: t.chance(1, 8) }
            }
            2 if !rules.is_empty() => {
                // complex rule sharing its key with an earlier rule
                let b = t.choose_ref(&rules).clone();
                if b.sigil == ' ' {
                    b
                } else {
                    GenRule { tail: t.choose(&[" > .x", ".other", "[href]", ":hover", " div", ", .second", "#id2", "+ .n", "~ .s", "+div", "+.n", "~.s", ">.x", ",.second"]).to_string(), ..b }
                }
            }
            _ => {
                let (text, value) = ident(t);
                let tail = if t.chance(1, 2) { String::new() } else { t.choose(&[" > .x", ".other", "[href]", ":hover", " div", ", .second", "#id2", ":not(.y)", "+div", "~span", ">b", ",i"]).to_string() };
                GenRule { sigil: if t.chance(2, 3) { '.' } else { '#' }, ident_text: text, ident_value: value, tail, via_negation: t.chance(1, 10) }
            }
        };
        rules.push(r);
    }
    if t.chance(1, 12) {
        // a family: many complex rules keyed under ONE class/id (buckets of 2-90 selectors)
        let (text, value) = ident(t);
        let sigil = if t.chance(2, 3) { '.' } else { '#' };
        let m = [2usize, 8, 31, 32, 33, 40, 64, 90][t.pick(8)];
        for k in 0..m {
            let tail = match t.pick(4) {
                0 => format!(" > .child-{}", k),
                1 => format!(".c{}", k),
                2 => format!("[data-k=\"{}\"]", k),
                _ => format!(" div.d{}", k),
            };
            rules.push(GenRule { sigil, ident_text: text.clone(), ident_value: value.clone(), tail, via_negation: false });
        }
    }
    let mut classes = vec![];
    let mut ids = vec![];
    let mut exceptions = vec![];
    for r in &rules {
        if r.sigil == '.' && t.chance(2, 3) {
            classes.push(r.ident_value.clone());
        }
        if r.sigil == '#' && t.chance(2, 3) {
            ids.push(r.ident_value.clone());
        }
        // near misses: the escaped spelling, a prefix, other sigil's namespace
        if r.sigil != ' ' && t.chance(1, 4) {
            let near = match t.pick(4) {
                0 => r.ident_text.clone(),
                1 => r.ident_value.chars().skip(1).collect(),
                2 => format!("{}x", r.ident_value),
                _ => r.ident_value.to_uppercase(),
            };
            if near != r.ident_value {
                if r.sigil == '.' { ids.push(r.ident_value.clone()); classes.push(near); } else { classes.push(r.ident_value.clone()); ids.push(near); }
            }
        }
        if t.chance(1, 5) {
            exceptions.push(r.selector());
        }
        if t.chance(1, 12) && r.sigil != ' ' {
            exceptions.push(format!("{}{}", r.sigil, r.ident_value));
        }
    }
    // a query name must not accidentally name another rule unless intended: that is fine, the
    // model handles it (it is computed over all rules)
    classes.dedup();
    ids.dedup();
    let spaced: Vec<usize> = (0..rules.len()).filter(|_| t.chance(1, 12)).collect();
    GenCase { rules, classes, ids, exceptions, spaced }
}

pub fn check(ctx: &mut Ctx) {
    ctx.rule = "1-8 generic rules '##SEL' (1/10 written as '~neg.example##SEL', 1/12 with whitespace after '##'): SEL = '.ident' / '#ident' with ident from the CSS identifier grammar (plain, non-ASCII incl. combining marks / ZWNJ / connector punctuation, backslash-escaped punctuation, hex escapes of 1-6 digits with/without the terminating space, upper/lower-case digits) followed by nothing (simple) or a compound/descendant/list tail (complex, often sharing its key with a simple rule; 1 case in 12 adds a family of 2-90 complex rules under one key), or a selector starting with neither; class/id query sets = the unescaped names of a subset of the rules + near misses (escaped spelling, prefix, suffix, case, other namespace); exception sets drawn from the rules' selectors. Oracle: identifiers are generated together with their unescaped value; expected lookup result = selectors whose unescaped key is queried, minus exceptions (asked of the built engine and of an engine loaded from its serialized bytes); partition: each selector is served by exactly one of hidden_class_id_selectors(own key) and url_cosmetic_resources(..).hide_selectors. Non-trivial = a rule with an escape, or a complex rule sharing its key with a simple one.".into();
    ctx.assumptions = vec!["NUL, surrogate and out-of-range code points are not generated (CSS maps them to U+FFFD; the library drops such rules)".into()];
    let n = ctx.tier.pick(2_000_000, 12_000_000);
    drive(ctx, "generic", n, 200, &decode, &check_case);
}

pub fn replay(ctx: &mut Ctx, v: &Value) {
    replay_file::<GenCase>(ctx, v, &check_case);
}
