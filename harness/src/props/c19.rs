//! C19 — thread-safe build: concurrent queries equal sequential ones; both builds agree.
//!
//! `vh check C19` runs in the default (single-thread regex caching) build and drives the
//! thread-safe build of the same harness (`VH_SYNC_BIN`) as a child process.

use crate::eng::*;
use crate::gen::{self, FullCase, NetCfg, ReqSpec};
use crate::run::{run_child_exe, Case, Ctx, Failure, Obs, Stats, Tape};
use serde::{Deserialize, Serialize};
use serde_json::{json, Value};

#[derive(Clone, Debug, Serialize, Deserialize)]
pub struct SchedCase {
    pub base: FullCase,
    /// per thread: (query index, spin iterations before the query, yield before the query)
    pub threads: Vec<Vec<(usize, u16, bool)>>,
    /// tag sets assigned (through a write lock) before each round; every thread's ops are split
    /// evenly over the rounds
    #[serde(default)]
    pub rounds: Vec<Vec<String>>,
    /// the shared engine runs with the discard-everything policy (true) or the default one
    /// (false: compiled regexes stay cached, which is what exposes stale cache entries)
    #[serde(default)]
    pub discard: bool,
    /// other discard policies for the shared engine: 0 = as `discard` says; 1 = (1 ms, 0);
    /// 2 = (1 ns, Duration::MAX), "never discard" written as the largest duration; 3 = (3 ms, 1 ms)
    #[serde(default)]
    pub policy: u8,
    /// after the rounds every thread asks this many cosmetic-page queries back to back (pages chosen
    /// by a per-thread LCG): a dense phase for races a few instructions wide
    #[serde(default)]
    pub hammer: u32,
}

impl Case for SchedCase {
    fn smaller(&self) -> Vec<Self> {
        let mut v = vec![];
        if self.threads.len() > 2 {
            for i in 0..self.threads.len() {
                let mut c = self.clone();
                c.threads.remove(i);
                v.push(c);
            }
        }
        if self.rounds.len() > 1 {
            for i in 0..self.rounds.len() {
                let mut c = self.clone();
                c.rounds.remove(i);
                v.push(c);
            }
        }
        for b in self.base.smaller().into_iter().take(40) {
            let mut c = self.clone();
            c.base = b;
            v.push(c);
        }
        v
    }
}

fn regex_heavy_case(t: &mut Tape) -> FullCase {
    let mut base = gen::full_case(t, &NetCfg { max_rules: 10, max_reqs: 6, ..Default::default() }, 3);
    // many regex rules so that (with a discard-everything policy) every query compiles regexes
    for i in 0..(4 + t.pick(12)) {
        let w = t.choose(&["ads", "banner", "track", "pixel", "img"]);
        let mut r = match t.pick(7) {
            0 => format!("/{}^*{}", w, i),
            1 => format!("/{}*x{}^", w, i % 3),
            2 => format!("/\\/{}\\d*\\/[a-z]{}/", w, i % 2),
            3 => format!("||example.com/{}*^{}", w, i % 4),
            4 => format!("||ads.net/*/{}^", w),
            5 => format!("||example.com^*{}", w),
            _ => format!("@@/{}^ok*", w),
        };
        // same-shape tagged rules: re-allocated on every tag switch
        if t.chance(1, 2) && !r.starts_with("@@") {
            r = format!("{}$tag={}", r, t.choose(gen::TAGS));
        }
        base.rules.push(r);
    }
    if t.chance(1, 3) {
        // rules whose regex the regex crate rejects (look-around): they never match, however often
        // their cache entry is discarded and rebuilt
        for _ in 0..(1 + t.pick(3)) {
            let w = t.choose(&["ads", "banner", "track"]);
            base.rules.push(match t.pick(3) {
                0 => format!("/^https?:\\/\\/(?!cdn\\.)[a-z.]+\\/{}/$script", w),
                1 => format!("/{}(?=\\d)/", w),
                _ => format!("@@/\\/{}\\d(?<!x)/$image", w),
            });
        }
    }
    if t.chance(1, 3) {
        // one regex text under two spellings that differ only in match-case (and in the request
        // type they apply to)
        let w = t.choose(&["Ads", "Banner"]);
        base.rules.push(format!("/\\/{}Unit[0-9]+/$script,match-case", w));
        base.rules.push(format!("/\\/{}Unit[0-9]+/$image", w));
        for (u, ty) in [("Unit7.js", "script"), ("unit7.js", "script"), ("Unit7.png", "image"), ("unit7.png", "image")] {
            base.reqs.push(ReqSpec { url: format!("https://cdn.example.com/{}{}", if u.starts_with('U') { w.to_string() } else { w.to_lowercase() }, u), source: "https://site.org/".into(), rtype: ty.into() });
        }
    }
    if t.chance(1, 3) {
        // generichide exceptions that depend on the query string, pages that differ only there
        base.rules.push("@@||example.com/embed?autoplay=1$generichide".into());
        base.rules.push("@@/player\\.html\\?(.*&)?ads=off/$generichide".into());
        base.rules.push("##a[href*=\"sponsor\"]".into());
        base.rules.push("##div > .promo".into());
        for p in ["https://example.com/embed?autoplay=1", "https://example.com/embed?autoplay=0", "https://example.com/embed", "https://cdn.example.com/player.html?x=1&ads=off", "https://cdn.example.com/player.html?ads=on"] {
            if t.chance(2, 3) {
                base.pages.push(p.to_string());
            }
        }
    }
    for _ in 0..(4 + t.pick(6)) {
        let w = t.choose(&["ads", "banner", "track", "pixel", "img"]);
        base.reqs.push(ReqSpec {
            url: format!("https://{}/{}{}/{}", t.choose(&["example.com", "cdn.example.com", "other.org", "ads.net.ads.net", "xads.net.ads.net", "example.com.example.com"]), w, t.pick(4), t.choose(&["x1", "ok/1", "a", "0/b", "foo/track", "q/banner?x"])),
            source: "https://site.org/".into(),
            rtype: t.choose(&["script", "image", "document", "subdocument"]).to_string(),
        });
    }
    base
}

pub fn decode_sched(t: &mut Tape) -> SchedCase {
    let mut base = regex_heavy_case(t);
    if t.chance(1, 3) {
        // many same-shape tagged regex rules in a few buckets: every tag switch frees and
        // re-allocates dozens of them, and one query compiles (and caches) many regexes
        let m = 40 + t.pick(260);
        let words = ["ads", "banner", "track"];
        for i in 0..m {
            base.rules.push(format!("/{}^*q{}${}tag={}", words[i % 3], i, if i % 7 == 0 { "important," } else { "" }, gen::TAGS[(i / 3) % gen::TAGS.len()]));
        }
        for _ in 0..(6 + t.pick(10)) {
            let i = t.pick(m);
            base.reqs.push(ReqSpec { url: format!("https://example.com/{}/zz/q{}", words[i % 3], i), source: "https://site.org/".into(), rtype: "script".into() });
        }
    }
    let nq = base.reqs.len() + base.pages.len();
    let nthreads = 2 + t.pick(15);
    let mut threads = vec![];
    for _ in 0..nthreads {
        let m = 20 + t.pick(180);
        let mut ops = vec![];
        for _ in 0..m {
            ops.push((t.pick(nq.max(1)), if t.chance(1, 4) { t.next() % 2000 } else { 0 }, t.chance(1, 6)));
        }
        threads.push(ops);
    }
    let mut rounds = vec![];
    for _ in 0..(1 + t.pick(5)) {
        let mut set = vec![];
        for tg in gen::TAGS {
            if t.chance(1, 2) {
                set.push(tg.to_string());
            }
        }
        rounds.push(set);
    }
    let has_gh = base.pages.iter().any(|p| p.contains("example.com/embed") || p.contains("player.html"));
    let hammer = if has_gh { 300 + t.pick(1500) as u32 } else if t.chance(1, 8) { 100 + t.pick(400) as u32 } else { 0 };
    SchedCase { base, threads, rounds, discard: t.chance(1, 2), policy: if t.chance(1, 3) { 1 + t.pick(3) as u8 } else { 0 }, hammer }
}

/// answers of query `k` (requests first, then pages)
fn answer(e: &adblock::Engine, c: &FullCase, k: usize) -> String {
    engine_answers(e, c, Some(k)).join(" | ")
}

#[cfg(not(feature = "unsync"))]
pub fn check_sched(c: &SchedCase, obs: &mut Obs) -> Result<(), String> {
    use adblock::regex_manager::RegexManagerDiscardPolicy;
    use std::sync::atomic::{AtomicBool, AtomicUsize, Ordering};
    use std::sync::{Arc, Barrier, RwLock};
    use std::time::Duration;
    let res = gen::scriptlet_resources();
    let aggressive = || RegexManagerDiscardPolicy { cleanup_interval: Duration::from_nanos(1), discard_unused_time: Duration::from_nanos(0) };
    let mk = |tags: &Vec<String>, discard: bool| {
        let mut e = build_engine(&c.base.rules, c.base.debug, c.base.optimize, &res);
        e.use_tags(&tags.iter().map(|s| s.as_str()).collect::<Vec<_>>());
        if discard {
            e.set_regex_discard_policy(aggressive());
        }
        e
    };
    let nq = (c.base.reqs.len() + c.base.pages.len()).max(1);
    let rounds: Vec<Vec<String>> = if c.rounds.is_empty() { vec![c.base.tags.clone()] } else { c.rounds.clone() };
    // what a single thread answers: a fresh engine per tag set, with the default discard policy
    // and with the discard-everything policy (answers must not depend on it)
    let mut sequential: Vec<Vec<String>> = vec![];
    for tags in &rounds {
        let plain = mk(tags, false);
        let a: Vec<String> = (0..nq).map(|k| answer(&plain, &c.base, k)).collect();
        let disc = mk(tags, true);
        for k in 0..nq {
            // twice: the second evaluation runs after everything was discarded again
            for _ in 0..2 {
                let b = answer(&disc, &c.base, k);
                if b != a[k] {
                    return Err(format!("single thread, tags {:?}, query {}: the answer depends on the regex discard policy: default {:?} vs discard-everything {:?}", tags, k, a[k], b));
                }
            }
        }
        sequential.push(a);
    }
    let shared = Arc::new(RwLock::new({
        let mut e = mk(&rounds[0], c.discard && c.policy == 0);
        match c.policy {
            1 => e.set_regex_discard_policy(RegexManagerDiscardPolicy { cleanup_interval: Duration::from_millis(1), discard_unused_time: Duration::from_nanos(0) }),
            2 => e.set_regex_discard_policy(RegexManagerDiscardPolicy { cleanup_interval: Duration::from_nanos(1), discard_unused_time: Duration::MAX }),
            3 => e.set_regex_discard_policy(RegexManagerDiscardPolicy { cleanup_interval: Duration::from_millis(3), discard_unused_time: Duration::from_millis(1) }),
            _ => {}
        }
        e
    }));
    let n = c.threads.len();
    let barrier = Arc::new(Barrier::new(n + 1));
    let in_flight = Arc::new(AtomicUsize::new(0));
    let overlaps = Arc::new(AtomicUsize::new(0));
    let progress = Arc::new(AtomicUsize::new(0));
    let finished = Arc::new(AtomicBool::new(false));
    let case = Arc::new(c.clone());
    let seq = Arc::new(sequential);
    // progress watchdog: a deadlock is reported only if nothing completes anywhere for 60 s
    {
        let (progress, finished, case) = (progress.clone(), finished.clone(), case.clone());
        std::thread::spawn(move || {
            let mut last = usize::MAX;
            let mut idle = 0;
            loop {
                std::thread::sleep(Duration::from_secs(5));
                if finished.load(Ordering::SeqCst) {
                    return;
                }
                let p = progress.load(Ordering::Relaxed);
                if p == last {
                    idle += 1;
                } else {
                    idle = 0;
                    last = p;
                }
                if idle >= 12 {
                    println!(
                        "F {}",
                        serde_json::to_string(&Failure { check: "schedules".into(), case: serde_json::to_value(&*case).unwrap_or(Value::Null), message: format!("DEADLOCK: no query completed on any of {} threads for 60 s ({} queries done)", case.threads.len(), p) }).unwrap_or_default()
                    );
                    std::process::exit(3);
                }
            }
        });
    }
    let nrounds = rounds.len();
    let mut handles = vec![];
    for (ti, ops) in c.threads.iter().enumerate() {
        let (shared, barrier, in_flight, overlaps, progress, case, seq, ops) = (shared.clone(), barrier.clone(), in_flight.clone(), overlaps.clone(), progress.clone(), case.clone(), seq.clone(), ops.clone());
        handles.push(std::thread::spawn(move || -> Result<(), String> {
            crate::run::install_panic_hook();
            let per = (ops.len() + nrounds - 1) / nrounds;
            let mut result: Result<(), String> = Ok(());
            for r in 0..nrounds {
                barrier.wait(); // round start (tags are set)
                if result.is_ok() {
                    let slice: Vec<_> = ops.iter().skip(r * per).take(per).cloned().collect();
                    result = crate::run::guard(|| {
                        for (k, spin, yld) in slice {
                            let k = k % seq[r].len();
                            for _ in 0..spin {
                                std::hint::spin_loop();
                            }
                            if yld {
                                std::thread::yield_now();
                            }
                            if in_flight.fetch_add(1, Ordering::SeqCst) > 0 {
                                overlaps.fetch_add(1, Ordering::Relaxed);
                            }
                            let a = {
                                let e = shared.read().map_err(|_| "engine lock poisoned".to_string())?;
                                answer(&e, &case.base, k)
                            };
                            in_flight.fetch_sub(1, Ordering::SeqCst);
                            progress.fetch_add(1, Ordering::Relaxed);
                            if a != seq[r][k] {
                                return Err(format!("round {} thread {} query {}: concurrent answer {:?} differs from the single-thread answer {:?}", r, ti, k, a, seq[r][k]));
                            }
                        }
                        Ok(())
                    })
                    .unwrap_or_else(|p| Err(format!("thread {} panicked: {}", ti, p)));
                }
                barrier.wait(); // round end
            }
            let (nreqs, npages) = (case.base.reqs.len(), case.base.pages.len());
            if result.is_ok() && case.hammer > 0 && npages > 0 {
                let last = nrounds - 1;
                result = crate::run::guard(|| {
                    let mut x: u64 = (ti as u64 + 1).wrapping_mul(0x9e37_79b9_7f4a_7c15);
                    for it in 0..case.hammer {
                        x = x.wrapping_mul(6364136223846793005).wrapping_add(1442695040888963407);
                        let k = nreqs + ((x >> 33) as usize % npages);
                        if k >= seq[last].len() {
                            continue;
                        }
                        let a = {
                            let e = shared.read().map_err(|_| "engine lock poisoned".to_string())?;
                            answer(&e, &case.base, k)
                        };
                        progress.fetch_add(1, Ordering::Relaxed);
                        if a != seq[last][k] {
                            return Err(format!("dense phase, thread {} iteration {} query {}: concurrent answer {:?} differs from the single-thread answer {:?}", ti, it, k, a, seq[last][k]));
                        }
                    }
                    Ok(())
                })
                .unwrap_or_else(|p| Err(format!("thread {} panicked: {}", ti, p)));
            }
            result
        }));
    }
    for r in 0..nrounds {
        {
            let mut e = shared.write().map_err(|_| "engine lock poisoned".to_string())?;
            e.use_tags(&rounds[r].iter().map(|s| s.as_str()).collect::<Vec<_>>());
            if r % 2 == 1 {
                // switch twice so that freed allocations get re-used by other rules
                e.use_tags(&[]);
                e.use_tags(&rounds[r].iter().map(|s| s.as_str()).collect::<Vec<_>>());
            }
        }
        barrier.wait();
        barrier.wait();
    }
    let mut failure: Option<String> = None;
    for h in handles {
        match h.join() {
            Ok(Ok(())) => {}
            Ok(Err(m)) => {
                failure.get_or_insert(m);
            }
            Err(_) => {
                failure.get_or_insert("a worker thread died".into());
            }
        }
    }
    finished.store(true, Ordering::SeqCst);
    obs.inner_evals += progress.load(Ordering::Relaxed) as u64;
    let ov = overlaps.load(Ordering::Relaxed);
    if ov > 0 {
        obs.nontrivial = true;
        obs.label("queries-overlapped");
    }
    if nrounds > 1 {
        obs.label("tag-switch-between-rounds");
    }
    obs.label(match (c.policy, c.discard) {
        (1, _) => "policy-1ms-0",
        (2, _) => "policy-never-discard-max",
        (3, _) => "policy-3ms-1ms",
        (_, true) => "policy-discard-everything",
        _ => "policy-default",
    });
    obs.inner_labels.push(("overlapping-query-attempts", ov as u64));
    match failure {
        Some(m) => Err(m),
        None => Ok(()),
    }
}

#[cfg(feature = "unsync")]
pub fn check_sched(_c: &SchedCase, _obs: &mut Obs) -> Result<(), String> {
    Err("INFRA: the concurrency part of C19 must run in the thread-safe build".into())
}

/// digest transcript of verdicts for a seeded stream of cases (identical code in both builds)
pub fn transcript(seed: u64, n: usize) -> Vec<String> {
    use proptest::strategy::{Strategy, ValueTree};
    use proptest::test_runner::{Config, RngAlgorithm, TestRng, TestRunner};
    let mut sb = [9u8; 32];
    sb[..8].copy_from_slice(&seed.to_le_bytes());
    let mut runner = TestRunner::new_with_rng(Config::default(), TestRng::from_seed(RngAlgorithm::ChaCha, &sb));
    let strat = crate::run::tape_strategy(1500);
    let res = gen::scriptlet_resources();
    let mut out = vec![];
    for _ in 0..n {
        let tape = strat.new_tree(&mut runner).unwrap().current();
        let c = regex_heavy_case(&mut Tape::new(&tape));
        let mut e = build_engine(&c.rules, c.debug, c.optimize, &res);
        e.use_tags(&c.tags.iter().map(|s| s.as_str()).collect::<Vec<_>>());
        let a = engine_answers(&e, &c, None).join("\n");
        let bytes = e.serialize_raw().unwrap_or_default();
        out.push(format!("{:016x}:{:016x}", seahash::hash(a.as_bytes()), seahash::hash(&bytes)));
    }
    out
}

pub fn worker(args: &[String]) -> i32 {
    match args.first().map(|s| s.as_str()) {
        Some("c19-transcript") => {
            let seed: u64 = args[1].parse().unwrap_or(0);
            let n: usize = args[2].parse().unwrap_or(10);
            for l in transcript(seed, n) {
                println!("T {}", l);
            }
            println!("CONFIG {}", if cfg!(feature = "unsync") { "unsync" } else { "sync" });
            0
        }
        Some("c19-stress") => {
            let seed: u64 = args[1].parse().unwrap_or(0);
            let cases: u32 = args[2].parse().unwrap_or(1);
            let mut st = Stats::default();
            // schedules use real threads: one schedule at a time
            let f = crate::run::run_shard_opt::<SchedCase>("schedules", seed, 0, cases, 4000, &decode_sched, &check_sched, &mut st, false);
            println!("S {}", serde_json::to_string(&st).unwrap_or_default());
            if let Some(f) = f {
                println!("F {}", serde_json::to_string(&f).unwrap_or_default());
            }
            0
        }
        Some("c19-one") => crate::run::worker_one::<SchedCase>("schedules", &check_sched),
        _ => 2,
    }
}

fn sync_bin() -> String {
    std::env::var("VH_SYNC_BIN").unwrap_or_else(|_| "/verif/harness/target-sync/release/vh".to_string())
}

pub fn check(ctx: &mut Ctx) {
    ctx.rule = "schedules: one shared Engine in the build without unsync-regex-caching (regex-heavy list + cosmetic rules + resources, 1 case in 3 with full-regex rules the regex crate rejects, 1 in 3 with query-dependent $generichide exceptions and pages that differ only in their query, 1 case in 3 with 40-299 extra same-shape tagged regex rules in three buckets; the shared engine's discard policy is (1 ns, 0) - every query discards and recompiles -, the default - compiled regexes stay cached across tag switches -, or, 1 case in 3, one of (1 ms, 0), (3 ms, 1 ms), (1 ns, Duration::MAX); 1 case in 3 holds two full-regex rules with the same text that differ only in match-case), 2-16 persistent threads x 20-200 mixed queries (network, csp, cosmetic, class/id) in generated per-thread orders with generated spin/yield points, in 1-5 rounds separated by barriers, followed (in cases with query-dependent generichide pages, and 1 in 6 others) by a dense phase of 100-1800 back-to-back cosmetic-page queries per thread; between rounds the controller switches the enabled tags through a write lock (re-allocating the same-shape tagged regex rules); request hosts contain the rules' host text at several label-aligned offsets; every answer is compared with the answer of a fresh single-thread engine for that round's tags, computed under the default AND the discard-everything policy (they must agree); a watchdog reports a deadlock only if no query completes anywhere for 60 s; a panic in any thread (incl. lock poisoning) is a failure. transcript: the same seeded stream of cases is answered and serialized by the single-thread and the thread-safe build; the digests must be equal. Non-trivial schedule = at least two threads were inside (or waiting to enter) a query at the same time.".into();
    ctx.assumptions = vec![
        "real threads sample interleavings; with the whole query under one mutex the schedule space collapses to query orderings, which are what is generated".into(),
        "deadlock is detected by absence of progress, never by a time budget".into(),
    ];
    let bin = sync_bin();
    if !std::path::Path::new(&bin).exists() {
        eprintln!("INFRA: thread-safe harness build not found at {}", bin);
        std::process::exit(2);
    }
    // cross-configuration transcript
    let n = ctx.tier.pick(3_000usize, 100_000usize);
    let mine = transcript(ctx.seed, n);
    let out = run_child_exe(&bin, &["worker".into(), "c19-transcript".into(), ctx.seed.to_string(), n.to_string()], None, &[]);
    if !out.lines.iter().any(|l| l == "CONFIG sync") {
        eprintln!("INFRA: {} is not the thread-safe build (or died: {:?})", bin, out.status);
        std::process::exit(2);
    }
    let theirs: Vec<&str> = out.lines.iter().filter_map(|l| l.strip_prefix("T ")).collect();
    ctx.stats.inner_evals += n as u64;
    *ctx.stats.sub.entry("transcript-cases".into()).or_insert(0) += n as u64;
    if theirs.len() != mine.len() {
        eprintln!("INFRA: transcript lengths differ: {} vs {}", theirs.len(), mine.len());
        std::process::exit(2);
    }
    for (i, (a, b)) in mine.iter().zip(theirs.iter()).enumerate() {
        if a != b {
            ctx.fail(Failure { check: "transcript".into(), case: json!({"seed": ctx.seed, "case_index": i}), message: format!("case #{} of the seeded stream: single-thread build digest {} vs thread-safe build digest {}", i, a, b) });
            break;
        }
    }
    // concurrency
    let cases = ctx.tier.pick(70u32, 4_000u32);
    let out = run_child_exe(&bin, &["worker".into(), "c19-stress".into(), ctx.seed.to_string(), cases.to_string()], None, &[]);
    let mut got = false;
    for l in &out.lines {
        if let Some(js) = l.strip_prefix("S ") {
            if let Ok(st) = serde_json::from_str::<Stats>(js) {
                ctx.stats.merge(st);
                got = true;
            }
        } else if let Some(js) = l.strip_prefix("F ") {
            if let Ok(f) = serde_json::from_str::<Failure>(js) {
                ctx.fail(f);
                got = true;
            }
        }
    }
    if !got {
        eprintln!("INFRA: stress worker died without a result: {:?}", out.status);
        std::process::exit(2);
    }
}

pub fn replay(ctx: &mut Ctx, v: &Value) {
    let bin = sync_bin();
    let cj = serde_json::to_string(&v.get("case").cloned().unwrap_or(Value::Null)).unwrap();
    if v.get("check").and_then(|c| c.as_str()) == Some("transcript") {
        println!("transcript replays are re-run through `vh check C19` with the recorded seed");
        return;
    }
    let out = run_child_exe(&bin, &["worker".into(), "c19-one".into()], Some(&cj), &[]);
    if out.lines.iter().any(|l| l == "OK") {
        println!("replay passes: C19 / schedules");
    } else if let Some(f) = out.lines.iter().find_map(|l| l.strip_prefix("F ")) {
        if let Ok(f) = serde_json::from_str::<Failure>(f) {
            ctx.fail(f);
        }
    } else {
        ctx.fail(Failure { check: "schedules".into(), case: v.get("case").cloned().unwrap_or(Value::Null), message: format!("process terminated ({:?})", out.status) });
    }
}
