//! C06 — answers depend only on current rules, tags and resources, not on history.

use crate::eng::*;
use crate::gen::{self, FullCase, NetCfg, OptCfg, ReqSpec};
use crate::run::{drive, replay_file, Case, Ctx, Obs, Tape};
use adblock::blocker::{Blocker, BlockerOptions};
use adblock::filters::network::{NetworkFilter, NetworkFilterMaskHelper};
use adblock::lists::{parse_filter, parse_filters, ParsedFilter};
use adblock::regex_manager::RegexManagerDiscardPolicy;
use adblock::resources::ResourceStorage;
use adblock::Engine;
use serde::{Deserialize, Serialize};
use serde_json::Value;
use std::collections::{BTreeSet, HashSet};
use std::time::Duration;

#[derive(Clone, Debug, Serialize, Deserialize)]
pub enum Op {
    /// run every query of the case (answers are compared with a fresh engine)
    Query,
    /// run only query #k (to vary which regexes are cached)
    QueryOne(usize),
    Use(Vec<String>),
    Enable(Vec<String>),
    Disable(Vec<String>),
    Policy(u8),
    DiscardRegex(usize),
    Optimize,
    AddFilter(String),
    /// serialize and load own bytes
    ReloadSelf,
    /// a load that FAILS (the first half of the engine's own bytes): nothing may change
    LoadTruncated,
    /// load the bytes of a sibling engine built from `rules2`
    LoadSibling,
    /// replace the loaded resources by one of three fixed sets
    UseResources(u8),
    /// add one extra resource from a fixed pool (rejected when the name is taken)
    AddResource(u8),
}

#[derive(Clone, Debug, Serialize, Deserialize)]
pub struct HistCase {
    pub base: FullCase,
    pub rules2: Vec<String>,
    pub ops: Vec<Op>,
}

impl Case for HistCase {
    fn smaller(&self) -> Vec<Self> {
        let mut v = vec![];
        for i in 0..self.ops.len() {
            let mut c = self.clone();
            c.ops.remove(i);
            v.push(c);
        }
        for b in self.base.smaller() {
            let mut c = self.clone();
            c.base = b;
            v.push(c);
        }
        for i in 0..self.rules2.len() {
            let mut c = self.clone();
            c.rules2.remove(i);
            v.push(c);
        }
        v
    }
}

fn policy(k: u8) -> RegexManagerDiscardPolicy {
    match k % 5 {
        // "never discard", written as the largest duration
        4 => RegexManagerDiscardPolicy { cleanup_interval: Duration::from_nanos(1), discard_unused_time: Duration::MAX },
        0 => RegexManagerDiscardPolicy::default(),
        1 => RegexManagerDiscardPolicy { cleanup_interval: Duration::from_nanos(1), discard_unused_time: Duration::from_nanos(0) },
        2 => RegexManagerDiscardPolicy { cleanup_interval: Duration::from_nanos(1), discard_unused_time: Duration::from_secs(3600) },
        _ => RegexManagerDiscardPolicy { cleanup_interval: Duration::from_secs(0), discard_unused_time: Duration::from_secs(0) },
    }
}

use crate::eng::{engine_answers, Answers};

fn redirect_tolerant_eq(a: &Answers, b: &Answers) -> bool {
    a == b
}

fn has_priority_ties(rules: &[String]) -> bool {
    // two redirect rules with equal priority but different resources leave the choice free
    let mut seen: Vec<(i32, String)> = vec![];
    for p in parse_network(rules) {
        if p.f.is_redirect() && !p.f.is_exception() {
            if let Some(o) = &p.f.modifier_option {
                let (n, pr) = split_priority(o);
                if seen.iter().any(|(p2, n2)| *p2 == pr && n2 != n) {
                    return true;
                }
                seen.push((pr, n.to_string()));
            }
        }
    }
    false
}

/// Lists with equal-priority redirects leave the choice between the tied resources free, so they
/// are not compared with the history model; but whatever is chosen is a function of the rules and
/// the request: the same query repeated, and a second engine built from the same list, agree.
fn tie_determinism(c: &FullCase, obs: &mut Obs) -> Result<(), String> {
    let res = gen::scriptlet_resources();
    let e1 = build_engine(&c.rules, c.debug, c.optimize, &res);
    let e2 = build_engine(&c.rules, c.debug, c.optimize, &res);
    let a = engine_answers(&e1, c, None);
    obs.inner_evals += a.len() as u64;
    obs.label("priority-tie-determinism");
    for (how, b) in [("repeated on the same engine", engine_answers(&e1, c, None)), ("on a second engine built from the same list", engine_answers(&e2, c, None)), ("repeated once more", engine_answers(&e1, c, None))] {
        if a != b {
            let d: Vec<_> = a.iter().zip(b.iter()).filter(|(x, y)| x != y).take(2).collect();
            return Err(format!("the same queries {} give different answers (rules {:?}): {:?}", how, c.rules, d));
        }
    }
    Ok(())
}

pub fn check_engine(c: &HistCase, obs: &mut Obs) -> Result<(), String> {
    if has_priority_ties(&c.base.rules) || has_priority_ties(&c.rules2) {
        obs.exclude("redirect-priority-tie (choice is free; only determinism is checked)");
        return tie_determinism(&c.base, obs);
    }
    let mut res = gen::scriptlet_resources();
    let mut rules = c.base.rules.clone();
    let mut e = build_engine(&rules, c.base.debug, c.base.optimize, &res);
    let mut tags: BTreeSet<String> = BTreeSet::new();
    let mut mutated = false;
    let mut interesting = false;
    for (k, op) in c.ops.iter().enumerate() {
        match op {
            Op::Query | Op::QueryOne(_) => {
                let only = if let Op::QueryOne(i) = op { Some(*i) } else { None };
                let mut fresh = build_engine(&rules, c.base.debug, c.base.optimize, &res);
                fresh.use_tags(&tags.iter().map(|s| s.as_str()).collect::<Vec<_>>());
                let got = engine_answers(&e, &c.base, only);
                // the very same query twice in a row must give the same answer
                let again = engine_answers(&e, &c.base, only);
                if got != again {
                    let d: Vec<_> = got.iter().zip(again.iter()).filter(|(a, b)| a != b).take(2).collect();
                    return Err(format!("after op #{} repeating the same queries gives different answers: {:?}", k, d));
                }
                let want = engine_answers(&fresh, &c.base, only);
                obs.inner_evals += got.len() as u64;
                if mutated {
                    interesting = true;
                }
                if !redirect_tolerant_eq(&got, &want) {
                    let d: Vec<_> = got.iter().zip(want.iter()).filter(|(a, b)| a != b).take(2).collect();
                    return Err(format!("after op #{} the live engine differs from a fresh engine with the same rules/tags {:?}: {:?}", k, tags, d));
                }
            }
            Op::Use(ts) => {
                e.use_tags(&ts.iter().map(|s| s.as_str()).collect::<Vec<_>>());
                tags = ts.iter().cloned().collect();
                mutated = true;
                obs.label("tags");
            }
            Op::Enable(ts) => {
                e.enable_tags(&ts.iter().map(|s| s.as_str()).collect::<Vec<_>>());
                tags.extend(ts.iter().cloned());
                mutated = true;
                obs.label("tags");
            }
            Op::Disable(ts) => {
                e.disable_tags(&ts.iter().map(|s| s.as_str()).collect::<Vec<_>>());
                for t in ts {
                    tags.remove(t);
                }
                mutated = true;
                obs.label("tags");
            }
            Op::Policy(p) => {
                e.set_regex_discard_policy(policy(*p));
                mutated = true;
                obs.label("policy");
            }
            Op::DiscardRegex(i) => {
                let info = e.get_regex_debug_info();
                if !info.regex_data.is_empty() {
                    let mut ids: Vec<u64> = info.regex_data.iter().map(|d| d.id).collect();
                    ids.sort();
                    e.discard_regex(ids[i % ids.len()]);
                    mutated = true;
                    obs.label("discard");
                }
            }
            Op::ReloadSelf => {
                let bytes = e.serialize_raw().map_err(|x| format!("serialize: {:?}", x))?;
                e.deserialize(&bytes).map_err(|x| format!("deserialize: {:?}", x))?;
                mutated = true;
                obs.label("reload-self");
            }
            Op::LoadTruncated => {
                let bytes = e.serialize_raw().map_err(|x| format!("serialize: {:?}", x))?;
                if e.deserialize(&bytes[..bytes.len() / 2]).is_ok() {
                    obs.exclude("a truncated buffer that loads (state after it is not modelled)");
                    return Ok(());
                }
                mutated = true;
                obs.label("failed-load");
            }
            Op::LoadSibling => {
                let sib = build_engine(&c.rules2, c.base.debug, c.base.optimize, &res);
                let bytes = sib.serialize_raw().map_err(|x| format!("serialize: {:?}", x))?;
                e.deserialize(&bytes).map_err(|x| format!("deserialize: {:?}", x))?;
                rules = c.rules2.clone();
                mutated = true;
                obs.label("load-sibling");
            }
            Op::UseResources(k) => {
                res = match k % 3 {
                    0 => gen::scriptlet_resources(),
                    1 => gen::std_resources(),
                    _ => vec![],
                };
                e.use_resources(res.iter().cloned());
                mutated = true;
                obs.label("use_resources");
            }
            Op::AddResource(k) => {
                let r = extra_resource(*k);
                let taken = res.iter().any(|x| x.name == r.name || x.aliases.contains(&r.name) || r.aliases.iter().any(|a| *a == x.name || x.aliases.contains(a)));
                let ok = e.add_resource(r.clone()).is_ok();
                if ok == taken {
                    return Err(format!("op #{}: add_resource({:?}) returned ok={} but the name is {}taken", k, r.name, ok, if taken { "" } else { "not " }));
                }
                if ok {
                    res.push(r);
                }
                mutated = true;
                obs.label("add_resource");
            }
            Op::Optimize | Op::AddFilter(_) => {}
        }
    }
    if interesting {
        obs.nontrivial = true;
    }
    Ok(())
}

fn extra_resource(k: u8) -> adblock::resources::Resource {
    use adblock::resources::{MimeType, PermissionMask, Resource, ResourceType};
    let (name, aliases, kind, body): (&str, Vec<&str>, ResourceType, &str) = match k % 4 {
        0 => ("missing.js", vec![], ResourceType::Mime(MimeType::ApplicationJavascript), "function missing() { /*MARK-missing*/ }"),
        1 => ("noop.html", vec!["blank.html"], ResourceType::Mime(MimeType::TextHtml), "<html></html>"),
        2 => ("extra.gif", vec!["1x1.gif"], ResourceType::Mime(MimeType::ImageGif), "GIF89a"),
        _ => ("set.js", vec![], ResourceType::Mime(MimeType::ApplicationJavascript), "function other() {}"),
    };
    Resource { name: name.into(), aliases: aliases.into_iter().map(|s| s.to_string()).collect(), kind, content: gen::b64(body), dependencies: vec![], permission: PermissionMask::from_bits(0) }
}

// ---------------------------------------------------------------------------------------------
// Blocker level: optimize() and add_filter() are only public there

#[derive(Clone, Debug, Serialize, Deserialize)]
pub struct BlkCase {
    pub rules: Vec<String>,
    pub reqs: Vec<ReqSpec>,
    pub ops: Vec<Op>,
    pub optimize: bool,
}

impl Case for BlkCase {
    fn smaller(&self) -> Vec<Self> {
        let mut v = vec![];
        for i in 0..self.ops.len() {
            let mut c = self.clone();
            c.ops.remove(i);
            v.push(c);
        }
        for i in 0..self.rules.len() {
            let mut c = self.clone();
            c.rules.remove(i);
            v.push(c);
        }
        if self.reqs.len() > 1 {
            for i in 0..self.reqs.len() {
                let mut c = self.clone();
                c.reqs.remove(i);
                v.push(c);
            }
        }
        v
    }
}

fn blocker_of(rules: &[String], optimize: bool) -> Blocker {
    let (nf, _) = parse_filters(rules, true, std_opts());
    Blocker::new(nf, &BlockerOptions { enable_optimizations: optimize })
}

fn blocker_answers(b: &Blocker, res: &ResourceStorage, reqs: &[ReqSpec], only: Option<usize>) -> Answers {
    let mut out = vec![];
    for (i, r) in reqs.iter().enumerate() {
        if only.map(|o| o % reqs.len() != i).unwrap_or(false) {
            continue;
        }
        if let Some(q) = mk_request(r) {
            let v = Verdict::of(&b.check(&q, res));
            let csp = b.get_csp_directives(&q).map(|s| split_csp(&s, &[]));
            out.push(format!("net {:?} -> {:?} csp {:?}", r, v, csp));
        }
    }
    out
}

pub fn check_blocker(c: &BlkCase, obs: &mut Obs) -> Result<(), String> {
    let res = ResourceStorage::from_resources(gen::std_resources());
    let mut rules = c.rules.clone();
    let mut b = blocker_of(&rules, c.optimize);
    let mut tags: BTreeSet<String> = BTreeSet::new();
    let mut mutated = false;
    let mut interesting = false;
    for (k, op) in c.ops.iter().enumerate() {
        match op {
            Op::Query | Op::QueryOne(_) => {
                if has_priority_ties(&rules) {
                    obs.exclude("redirect-priority-tie (choice is free; only determinism is checked)");
                    let a = blocker_answers(&b, &res, &c.reqs, None);
                    let fresh1 = blocker_of(&rules, c.optimize);
                    let fresh2 = blocker_of(&rules, c.optimize);
                    if a != blocker_answers(&b, &res, &c.reqs, None) || blocker_answers(&fresh1, &res, &c.reqs, None) != blocker_answers(&fresh2, &res, &c.reqs, None) {
                        return Err(format!("the same queries repeated (or asked of two blockers built from the same list {:?}) give different answers", rules));
                    }
                    return Ok(());
                }
                let only = if let Op::QueryOne(i) = op { Some(*i) } else { None };
                let mut fresh = blocker_of(&rules, c.optimize);
                fresh.use_tags(&tags.iter().map(|s| s.as_str()).collect::<Vec<_>>());
                let got = blocker_answers(&b, &res, &c.reqs, only);
                let want = blocker_answers(&fresh, &res, &c.reqs, only);
                obs.inner_evals += got.len() as u64;
                if mutated {
                    interesting = true;
                }
                if got != want {
                    let d: Vec<_> = got.iter().zip(want.iter()).filter(|(a, b)| a != b).take(2).collect();
                    return Err(format!("after op #{} the live blocker differs from a fresh one with rules {:?} tags {:?}: {:?}", k, rules, tags, d));
                }
            }
            Op::Use(ts) => {
                b.use_tags(&ts.iter().map(|s| s.as_str()).collect::<Vec<_>>());
                tags = ts.iter().cloned().collect();
                mutated = true;
                obs.label("tags");
            }
            Op::Enable(ts) => {
                b.enable_tags(&ts.iter().map(|s| s.as_str()).collect::<Vec<_>>());
                tags.extend(ts.iter().cloned());
                mutated = true;
                obs.label("tags");
            }
            Op::Disable(ts) => {
                b.disable_tags(&ts.iter().map(|s| s.as_str()).collect::<Vec<_>>());
                for t in ts {
                    tags.remove(t);
                }
                mutated = true;
                obs.label("tags");
            }
            Op::Policy(p) => {
                b.set_regex_discard_policy(policy(*p));
                mutated = true;
                obs.label("policy");
            }
            Op::DiscardRegex(i) => {
                let info = b.get_regex_debug_info();
                if !info.regex_data.is_empty() {
                    let mut ids: Vec<u64> = info.regex_data.iter().map(|d| d.id).collect();
                    ids.sort();
                    b.discard_regex(ids[i % ids.len()]);
                    mutated = true;
                    obs.label("discard");
                }
            }
            Op::Optimize => {
                b.optimize();
                mutated = true;
                obs.label("optimize");
            }
            Op::AddFilter(line) => {
                let Ok(ParsedFilter::Network(f)) = parse_filter(line, true, std_opts()) else { continue };
                // documented limits of add_filter: badfilter rules cannot be added, and a rule
                // targeted by an existing $badfilter is not cancelled retroactively
                let bad: HashSet<u64> = parse_network(&rules).iter().filter(|p| p.f.is_badfilter()).map(|p| p.f.get_id_without_badfilter()).collect();
                if f.is_badfilter() || bad.contains(&f.get_id()) {
                    obs.exclude("add_filter of/against badfilter (documented unsupported)");
                    continue;
                }
                let f2: NetworkFilter = f.clone();
                match b.add_filter(f2) {
                    Ok(()) => {
                        rules.push(line.clone());
                        mutated = true;
                        obs.label("add_filter");
                    }
                    Err(_) => {
                        obs.label("add_filter-rejected");
                        // FilterExists: the rule is already there; nothing changes.
                        // (a redirect rule is added to the redirect list before the check; it is
                        // a duplicate there as well)
                    }
                }
            }
            Op::ReloadSelf | Op::LoadTruncated | Op::LoadSibling | Op::UseResources(_) | Op::AddResource(_) => {}
        }
    }
    if interesting {
        obs.nontrivial = true;
    }
    Ok(())
}

fn tagset(t: &mut Tape) -> Vec<String> {
    let n = t.pick(4);
    (0..n).map(|_| t.choose(gen::TAGS).to_string()).collect()
}

fn ops(t: &mut Tape, nq: usize, blocker: bool, extra_pool: &[String]) -> Vec<Op> {
    let m = if t.chance(1, 8) { 25 + t.pick(60) } else { 3 + t.pick(20) };
    let mut v = vec![];
    for _ in 0..m {
        v.push(match t.pick(16) {
            0..=2 => Op::Query,
            3..=4 => Op::QueryOne(t.pick(nq.max(1))),
            5..=6 => Op::Use(tagset(t)),
            7 => Op::Enable(tagset(t)),
            8 => Op::Disable(tagset(t)),
            9 => Op::Policy(t.pick(5) as u8),
            10..=11 => Op::DiscardRegex(t.pick(16)),
            12 => if blocker { Op::Optimize } else if t.chance(1, 3) { Op::LoadTruncated } else { Op::ReloadSelf },
            15 if !blocker => if t.chance(1, 2) { Op::UseResources(t.pick(3) as u8) } else { Op::AddResource(t.pick(4) as u8) },
            13..=14 => {
                if blocker {
                    let cfg = OptCfg { allow_unsupported_tag_combos: false, ..Default::default() };
                    if t.chance(1, 2) { Op::AddFilter(gen::net_rule(t, extra_pool, &[], &cfg)) } else { Op::AddFilter(regexy_rule(t)) }
                } else {
                    Op::LoadSibling
                }
            }
            _ => Op::Query,
        });
    }
    v.push(Op::Query);
    v
}

/// same-shape regex rules with tags: freed allocations get re-used by *different* rules
fn regexy_rule(t: &mut Tape) -> String {
    let w = t.choose(&["ads", "banner", "track", "pixel"]);
    let o = t.choose(&["foo", "bar", "img", "x1"]);
    if t.chance(1, 6) {
        // one regex text under two spellings that differ only in match-case (and in the request type
        // they apply to): the compiled forms differ although the pattern text is the same
        let (ty, mc) = if t.chance(1, 2) { ("script", ",match-case") } else { ("image", "") };
        let w2 = t.choose(&["Ads", "Banner"]);
        return format!("/\\/{}Unit\\d?\\/{}/${}{}", w2, o, ty, mc);
    }
    if t.chance(1, 6) {
        // one pattern body under different anchors (and request types): `body|`, `|…body`, `body`
        let body = format!("/{}/*/{}", w, o);
        return match t.pick(4) {
            0 => format!("{}|$image", body),
            1 => format!("{}$script", body),
            2 => format!("|https://a.com{}$xhr", body),
            _ => format!("||a.com{}|$font", body),
        };
    }
    let p = match t.pick(9) {
        0 | 1 => format!("/{}^{}", w, o),
        2 | 3 => format!("/{}*{}", w, o),
        4 | 5 => format!("/\\/{}\\d?\\/{}/", w, o),
        // a full regex the regex crate rejects (look-around): the rule never matches, however
        // often its cache entry is discarded and rebuilt
        6 => format!("/\\/{}(?!x)\\/{}/", w, o),
        _ => format!("/{}/{}^", w, o),
    };
    let mut opts = vec![];
    if t.chance(2, 3) {
        opts.push(format!("tag={}", t.choose(gen::TAGS)));
    }
    if t.chance(1, 4) {
        opts.push("important".to_string());
    }
    let ex = if t.chance(1, 5) { "@@" } else { "" };
    if opts.is_empty() { format!("{}{}", ex, p) } else { format!("{}{}${}", ex, p, opts.join(",")) }
}

fn regexy_reqs(t: &mut Tape) -> Vec<ReqSpec> {
    let mut v = vec![];
    for _ in 0..(2 + t.pick(8)) {
        let w = t.choose(&["ads", "banner", "track", "pixel"]);
        let o = t.choose(&["foo", "bar", "img", "x1"]);
        if t.chance(1, 5) {
            // probes for the match-case twins: both case spellings, both request types
            let w2 = t.choose(&["Ads", "Banner", "ads", "banner"]);
            v.push(ReqSpec { url: format!("https://a.com/{}{}1/{}", w2, t.choose(&["Unit", "unit"]), o), source: "https://site.org/".into(), rtype: t.choose(&["script", "image"]).to_string() });
            continue;
        }
        if t.chance(1, 5) {
            // probes for the anchor twins: the body at the end of the URL or followed by more text
            v.push(ReqSpec { url: format!("https://{}/{}/1/{}{}", t.choose(&["a.com", "b.com"]), w, o, t.choose(&["", ".png", "/x"])), source: "https://site.org/".into(), rtype: t.choose(&["script", "image", "xhr", "font"]).to_string() });
            continue;
        }
        let u = match t.pick(4) {
            0 => format!("https://a.com/{}/{}", w, o),
            1 => format!("https://a.com/{}x{}", w, o),
            2 => format!("https://b.com/{}7/{}", w, o),
            _ => format!("https://a.com/{}/{}/", w, o),
        };
        v.push(ReqSpec { url: u, source: "https://site.org/".into(), rtype: "script".into() });
    }
    v
}

pub fn decode_engine(t: &mut Tape) -> HistCase {
    let cfg = NetCfg { max_rules: 14, max_reqs: 6, opt: OptCfg { allow_modifiers: true, ..Default::default() }, ..Default::default() };
    let mut base = gen::full_case(t, &cfg, 3);
    for _ in 0..t.pick(8) {
        base.rules.push(regexy_rule(t));
    }
    base.reqs.extend(regexy_reqs(t));
    let mut rules2: Vec<String> = vec![];
    for _ in 0..(1 + t.pick(8)) {
        rules2.push(if t.chance(1, 2) { regexy_rule(t) } else { gen::cosmetic_rule(t, &[]) });
    }
    if t.chance(1, 2) {
        rules2.extend(base.rules.iter().take(4).cloned());
    }
    let nq = base.reqs.len() + base.pages.len();
    let ops = ops(t, nq, false, &[]);
    HistCase { base, rules2, ops }
}

pub fn decode_blocker(t: &mut Tape) -> BlkCase {
    let mut rules = vec![];
    for _ in 0..(1 + t.pick(10)) {
        rules.push(regexy_rule(t));
    }
    let pool: Vec<String> = (0..2).map(|_| gen::url(t)).collect();
    let cfg = OptCfg::default();
    for _ in 0..t.pick(6) {
        rules.push(gen::net_rule(t, &pool, &[], &cfg));
    }
    let mut reqs = regexy_reqs(t);
    for _ in 0..t.pick(4) {
        reqs.push(gen::request(t, &pool, &[]));
    }
    let nq = reqs.len();
    let ops = ops(t, nq, true, &pool);
    BlkCase { rules, reqs, ops, optimize: t.chance(1, 2) }
}

/// Many distinct regex rules queried one after the other on ONE live blocker (cache capacity /
/// eviction effects), each answer compared with a blocker built fresh for that single query.
pub fn check_big(c: &crate::gen::NetCase, obs: &mut Obs) -> Result<(), String> {
    let res = ResourceStorage::from_resources(gen::std_resources());
    let mut live = blocker_of(&c.rules, false);
    live.use_tags(&c.tags.iter().map(|s| s.as_str()).collect::<Vec<_>>());
    let reqs: Vec<_> = c.reqs.iter().filter_map(|r| mk_request(r).map(|q| (r, q))).collect();
    for pass in 0..2 {
        let mut answers = vec![];
        for (_, q) in &reqs {
            answers.push(Verdict::of(&live.check(q, &res)));
        }
        obs.inner_evals += reqs.len() as u64;
        // oracle for a sample of the queries (first, last, around powers of two)
        let n = reqs.len();
        if n == 0 {
            return Ok(());
        }
        let mut idx: Vec<usize> = vec![0, 1, n / 2, n - 1];
        idx.retain(|k| *k < n);
        for m in [15usize, 31, 63, 64, 127, 128, 255, 256, 511, 512, 513] {
            if m < n {
                idx.push(m);
            }
        }
        for k in idx {
            let mut fresh = blocker_of(&c.rules, false);
            fresh.use_tags(&c.tags.iter().map(|s| s.as_str()).collect::<Vec<_>>());
            let want = Verdict::of(&fresh.check(&reqs[k].1, &res));
            if want.matched {
                obs.nontrivial = true;
            }
            if answers[k] != want {
                return Err(format!("{} rules, pass {}: query #{} {:?}: live blocker (after {} other queries) {:?}, fresh blocker {:?}", c.rules.len(), pass, k, reqs[k].0, k + pass * n, answers[k], want));
            }
        }
    }
    Ok(())
}

/// batch vs one-at-a-time: Blocker::new(L) and Blocker::new([]) + add_filter(l) for l in L answer alike
pub fn check_incremental(c: &gen::NetCase, obs: &mut Obs) -> Result<(), String> {
    if has_priority_ties(&c.rules) {
        obs.exclude("redirect-priority-tie (choice is free)");
        return Ok(());
    }
    let mut refused = vec![];
    let Some(inc) = incremental_blocker(&c.rules, std_opts(), &c.tags, &mut refused) else {
        obs.exclude("list with a $badfilter rule (add_filter documents those as unsupported)");
        return Ok(());
    };
    let res = ResourceStorage::from_resources(gen::std_resources());
    let mut batch = blocker_of(&c.rules, false);
    batch.use_tags(&c.tags.iter().map(|s| s.as_str()).collect::<Vec<_>>());
    let got = blocker_answers(&inc, &res, &c.reqs, None);
    let want = blocker_answers(&batch, &res, &c.reqs, None);
    obs.inner_evals += got.len() as u64;
    if want.iter().any(|a| a.contains("matched: true") || a.contains("exception: true") || a.contains("Some(")) {
        obs.nontrivial = true;
    }
    if got != want {
        let d: Vec<_> = got.iter().zip(want.iter()).filter(|(a, b)| a != b).take(2).collect();
        return Err(format!("rules {:?} (tags {:?}) added one at a time (refused as duplicates: {:?}) answer differently from the same list loaded in one batch: {:?}", c.rules, c.tags, refused, d));
    }
    Ok(())
}

pub fn check(ctx: &mut Ctx) {
    ctx.rule = "engine: rule list (network + cosmetic + same-shape tagged regex rules) and a history of 4-24 ops over {query all, query one, use/enable/disable tags, set discard policy (default / discard-everything-always / 1ns,1h / disabled / 1ns,Duration::MAX), discard_regex(k-th cached id), serialize+deserialize own bytes, a FAILING deserialize (first half of its own bytes), deserialize a sibling engine's bytes, use_resources(one of 3 sets), add_resource(one of 4)}; blocker: the same plus Blocker::optimize() and Blocker::add_filter(line). After every query op all answers (network verdict, csp set, cosmetic resources, class/id selectors) are compared with a freshly built engine/blocker from the model's current rules + tag set. many-regexes: 2-800 same-shape (mostly regex) rules queried one after the other, twice, on one live blocker, sampled answers compared with a blocker built fresh for that single query. incremental: C01-style lists (1-20 rules, tags) loaded in one batch (Blocker::new) and one rule at a time (Blocker::add_filter on an empty blocker): equal answers on all requests. Non-trivial = a query op that follows at least one mutator.".into();
    ctx.assumptions = vec![
        "elapsed time is exercised through discard policies and explicit discards; the wall clock is never consulted by the oracle".into(),
        "add_filter of a $badfilter rule, or of a rule an existing $badfilter targets, is documented as unsupported and skipped (counted)".into(),
        "lists with two equal-priority redirect rules naming different resources are not compared with the history model (the choice between them is free); for them only determinism is checked: the same queries repeated, and asked of a second engine built from the same list, agree".into(),
    ];
    let n = ctx.tier.pick(30_000, 500_000);
    drive(ctx, "engine", n, 1500, &decode_engine, &check_engine);
    let n = ctx.tier.pick(50_000, 800_000);
    drive(ctx, "blocker", n, 900, &decode_blocker, &check_blocker);
    let n = ctx.tier.pick(120, 3_000);
    drive(ctx, "many-regexes", n, 120, &|t| gen::big_group_case(t), &check_big);
    let n = ctx.tier.pick(80_000, 1_000_000);
    drive(ctx, "incremental", n, 900, &|t| gen::net_case(t, &NetCfg { max_rules: 20, opt: OptCfg { allow_badfilter: false, ..Default::default() }, ..Default::default() }), &check_incremental);
}

pub fn replay(ctx: &mut Ctx, v: &Value) {
    match v.get("check").and_then(|c| c.as_str()) {
        Some("blocker") => replay_file::<BlkCase>(ctx, v, &check_blocker),
        Some("many-regexes") => replay_file::<crate::gen::NetCase>(ctx, v, &check_big),
        Some("incremental") => replay_file::<crate::gen::NetCase>(ctx, v, &check_incremental),
        _ => replay_file::<HistCase>(ctx, v, &check_engine),
    }
}
