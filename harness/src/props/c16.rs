//! C16 — per-site cosmetic resources contain exactly the rules scoped to that host.

use crate::eng::*;
use crate::gen;
use crate::model::pat;
use crate::run::{drive, replay_file, Case, Ctx, Obs, Tape};
use adblock::resources::{MimeType, PermissionMask, Resource, ResourceType};
use serde::{Deserialize, Serialize};
use serde_json::{json, Value};
use std::collections::BTreeSet;

#[derive(Clone, Debug, Serialize, Deserialize, PartialEq)]
pub enum Loc {
    Host(String),
    Entity(String),
}

#[derive(Clone, Debug, Serialize, Deserialize, PartialEq)]
pub enum Body {
    Hide(String),
    Style(String, String),
    Remove(String),
    RemoveAttr(String, String),
    RemoveClass(String, String),
    /// scriptlet name + one argument
    Script(String, Option<String>),
    /// `#@#+js()`
    BlanketScript,
}

#[derive(Clone, Debug, Serialize, Deserialize)]
pub struct CRule {
    /// (location, negated)
    pub locs: Vec<(Loc, bool)>,
    pub unhide: bool,
    pub body: Body,
}

impl CRule {
    pub fn line(&self) -> String {
        let l: Vec<String> = self
            .locs
            .iter()
            .map(|(l, n)| {
                let s = match l {
                    Loc::Host(h) => h.clone(),
                    Loc::Entity(e) => format!("{}.*", e),
                };
                if *n { format!("~{}", s) } else { s }
            })
            .collect();
        let b = match &self.body {
            Body::Hide(s) => s.clone(),
            Body::Style(s, st) => format!("{}:style({})", s, st),
            Body::Remove(s) => format!("{}:remove()", s),
            Body::RemoveAttr(s, a) => format!("{}:remove-attr({})", s, a),
            Body::RemoveClass(s, a) => format!("{}:remove-class({})", s, a),
            Body::Script(n, None) => format!("+js({})", n),
            Body::Script(n, Some(a)) => format!("+js({}, {})", n, a),
            Body::BlanketScript => "+js()".to_string(),
        };
        format!("{}{}{}", l.join(","), if self.unhide { "#@#" } else { "##" }, b)
    }
}

#[derive(Clone, Debug, Serialize, Deserialize)]
pub struct Page {
    pub host: String,
    /// registrable domain and public suffix, known by construction
    pub reg: String,
    pub suffix: String,
}

#[derive(Clone, Debug, Serialize, Deserialize)]
pub struct CosCase {
    pub rules: Vec<CRule>,
    /// hosts named by `@@||host^$generichide` rules
    pub generichide: Vec<String>,
    /// `@@<*|||host^>$generichide,domain=[~]d` rules: (host or None for `*`, domain, negated)
    #[serde(default)]
    pub generichide_dom: Vec<(Option<String>, String, bool)>,
    pub pages: Vec<Page>,
    /// indices of rules written with whitespace between the `##` / `#@#` marker and the selector
    /// (legal; the selector is what follows, trimmed)
    #[serde(default)]
    pub spaced: Vec<usize>,
}

impl Case for CosCase {
    fn smaller(&self) -> Vec<Self> {
        let mut v = vec![];
        if self.pages.len() > 1 {
            for p in &self.pages {
                let mut c = self.clone();
                c.pages = vec![p.clone()];
                v.push(c);
            }
        }
        for i in 0..self.rules.len() {
            let mut c = self.clone();
            c.rules.remove(i);
            v.push(c);
        }
        for i in 0..self.generichide.len() {
            let mut c = self.clone();
            c.generichide.remove(i);
            v.push(c);
        }
        for i in 0..self.generichide_dom.len() {
            let mut c = self.clone();
            c.generichide_dom.remove(i);
            v.push(c);
        }
        for i in 0..self.rules.len() {
            if self.rules[i].locs.len() > 1 {
                for k in 0..self.rules[i].locs.len() {
                    let mut c = self.clone();
                    c.rules[i].locs.remove(k);
                    v.push(c);
                }
            }
        }
        v
    }
}

fn ascii(h: &str) -> String {
    if h.is_ascii() { h.to_string() } else { idna::domain_to_ascii(h).unwrap_or_else(|_| h.to_string()) }
}

/// label suffixes of `host` that are no shorter than `floor` (both ASCII)
fn label_suffixes(host: &str, floor: &str) -> Vec<String> {
    let mut v = vec![];
    let mut h = host;
    loop {
        if h.len() >= floor.len() {
            v.push(h.to_string());
        }
        if h == floor {
            break;
        }
        match h.split_once('.') {
            Some((_, rest)) if rest.len() >= floor.len() => h = rest,
            _ => break,
        }
    }
    v
}

fn covers(loc: &Loc, p: &Page) -> bool {
    let host = ascii(&p.host);
    let reg = ascii(&p.reg);
    let suffix = ascii(&p.suffix);
    match loc {
        Loc::Host(l) => {
            let l = ascii(l);
            label_suffixes(&host, &reg).contains(&l) || l == suffix
        }
        Loc::Entity(e) => {
            let e = ascii(e);
            // host minus its public suffix
            let Some(stem) = host.strip_suffix(&format!(".{}", suffix)) else { return false };
            let mut h = stem;
            loop {
                if h == e {
                    return true;
                }
                match h.split_once('.') {
                    Some((_, rest)) => h = rest,
                    None => return false,
                }
            }
        }
    }
}

fn scriptlet_resources() -> Vec<Resource> {
    let mk = |name: &str, body: &str| Resource {
        name: name.to_string(),
        aliases: vec![],
        kind: ResourceType::Mime(MimeType::ApplicationJavascript),
        content: gen::b64(body),
        dependencies: vec![],
        permission: PermissionMask::from_bits(0),
    };
    vec![mk("sa.js", "/*SA {{1}}*/"), mk("sb.js", "/*SB {{1}}*/"), mk("sc.js", "/*SC {{1}}*/")]
}

fn action_json(b: &Body) -> Option<Value> {
    let css = |s: &str| json!([{"type": "css-selector", "arg": s}]);
    Some(match b {
        Body::Style(s, st) => json!({"selector": css(s), "action": {"type": "style", "arg": st}}),
        Body::Remove(s) => json!({"selector": css(s), "action": {"type": "remove"}}),
        Body::RemoveAttr(s, a) => json!({"selector": css(s), "action": {"type": "remove-attr", "arg": a}}),
        Body::RemoveClass(s, a) => json!({"selector": css(s), "action": {"type": "remove-class", "arg": a}}),
        _ => return None,
    })
}

pub fn check_case(c: &CosCase, obs: &mut Obs) -> Result<(), String> {
    let mut lines: Vec<String> = c
        .rules
        .iter()
        .enumerate()
        .map(|(i, r)| {
            let l = r.line();
            if c.spaced.contains(&i) && !matches!(r.body, Body::Script(..) | Body::BlanketScript) {
                if r.unhide { l.replacen("#@#", "#@# ", 1) } else { l.replacen("##", if i % 2 == 0 { "## " } else { "##\t " }, 1) }
            } else {
                l
            }
        })
        .collect();
    if !c.spaced.is_empty() {
        obs.label("space-after-marker");
    }
    for h in &c.generichide {
        lines.push(format!("@@||{}^$generichide", h));
    }
    for (h, d, neg) in &c.generichide_dom {
        let pat = match h { Some(h) => format!("||{}^", h), None => "*".to_string() };
        lines.push(format!("@@{}${},domain={}{}", pat, if d.len() % 2 == 0 { "generichide" } else { "ghide" }, if *neg { "~" } else { "" }, d));
    }
    let res = scriptlet_resources();
    let e0 = build_engine(&lines, false, true, &res);
    // the same rules after a serialize -> deserialize round trip
    let mut e_rt = adblock::Engine::new(true);
    e_rt.deserialize(&e0.serialize_raw().map_err(|x| format!("serialize: {:?}", x))?).map_err(|x| format!("deserialize of own bytes: {:?}", x))?;
    e_rt.use_resources(res.iter().cloned());
    for (e, how) in [(&e0, ""), (&e_rt, " [engine loaded from its own serialized bytes]")] {
    for p in &c.pages {
        obs.inner_evals += 1;
        let url = format!("https://{}/index.html", p.host);
        let got = e.url_cosmetic_resources(&url);
        let host_a = ascii(&p.host);
        // generichide: an exception `@@||h^$generichide` that matches the page URL
        let gh = c.generichide.iter().any(|h| {
            // the rule parser strips a leading "www." from hostname anchors by design
            let a = pat::parse(&format!("||{}^", ascii(h).trim_start_matches("www.")));
            pat::matches(&a, &format!("https://{}/index.html", host_a), &host_a, 8)
        });
        // ... possibly restricted by a domain= list: the page is its own initiator
        let gh = gh || c.generichide_dom.iter().any(|(h, d, neg)| {
            let pat_ok = match h {
                Some(h) => {
                    let a = pat::parse(&format!("||{}^", ascii(h).trim_start_matches("www.")));
                    pat::matches(&a, &format!("https://{}/index.html", host_a), &host_a, 8)
                }
                None => true,
            };
            let d = ascii(d);
            let covered = host_a == d || host_a.ends_with(&format!(".{}", d));
            pat_ok && (covered != *neg)
        });
        let mut hide: BTreeSet<String> = BTreeSet::new();
        let mut unhide: BTreeSet<String> = BTreeSet::new();
        let mut generic_misc: BTreeSet<String> = BTreeSet::new();
        let mut actions: Vec<Value> = vec![];
        let mut unactions: Vec<Value> = vec![];
        let mut scripts: BTreeSet<String> = BTreeSet::new();
        let mut unscripts: BTreeSet<String> = BTreeSet::new();
        let mut blanket = false;
        let mut via_parent_or_entity = false;
        for r in &c.rules {
            let pos_cover = r.locs.iter().any(|(l, n)| !*n && covers(l, p));
            let neg_cover = r.locs.iter().any(|(l, n)| *n && covers(l, p));
            let only_neg = !r.locs.is_empty() && r.locs.iter().all(|(_, n)| *n);
            if pos_cover && r.locs.iter().any(|(l, n)| !*n && covers(l, p) && *l != Loc::Host(p.host.clone())) {
                via_parent_or_entity = true;
            }
            // the rule as written applies where a positive location covers; its negation applies
            // where a negated location covers
            for (applies, negated) in [(pos_cover, false), (neg_cover, true)] {
                if !applies {
                    continue;
                }
                let is_unhide = r.unhide != negated;
                match &r.body {
                    Body::Hide(s) => {
                        if is_unhide { unhide.insert(s.clone()); } else { hide.insert(s.clone()); }
                    }
                    Body::Script(n, a) => {
                        let txt = match a { Some(a) => format!("{}, {}", n, a), None => n.clone() };
                        if is_unhide { unscripts.insert(txt); } else { scripts.insert(txt); }
                    }
                    Body::BlanketScript => {
                        if is_unhide { blanket = true; }
                    }
                    b => {
                        let j = action_json(b).unwrap();
                        if is_unhide { unactions.push(j); } else { actions.push(j); }
                    }
                }
            }
            // unscoped generic rules, and the hidden generic rule of negation-only rules
            if (r.locs.is_empty() || only_neg) && !r.unhide {
                if let Body::Hide(s) = &r.body {
                    if !s.starts_with('.') && !s.starts_with('#') {
                        generic_misc.insert(s.clone());
                    }
                }
            }
        }
        let mut want_hide: BTreeSet<String> = hide.difference(&unhide).cloned().collect();
        if !gh {
            for s in generic_misc.difference(&unhide) {
                want_hide.insert(s.clone());
            }
        }
        let got_hide: BTreeSet<String> = got.hide_selectors.iter().cloned().collect();
        if got_hide != want_hide {
            return Err(format!("page {}{}: hide_selectors {:?}, expected {:?}", p.host, how, got_hide, want_hide));
        }
        let got_exc: BTreeSet<String> = got.exceptions.iter().cloned().collect();
        if got_exc != unhide {
            return Err(format!("page {}{}: exceptions {:?}, expected {:?}", p.host, how, got_exc, unhide));
        }
        if got.generichide != gh {
            return Err(format!("page {}{}: generichide {}, expected {}", p.host, how, got.generichide, gh));
        }
        let mut got_actions: Vec<String> = vec![];
        for a in &got.procedural_actions {
            match serde_json::from_str::<Value>(a) {
                Ok(v) => got_actions.push(v.to_string()),
                Err(_) => return Err(format!("page {}{}: procedural action is not JSON: {:?}", p.host, how, a)),
            }
        }
        got_actions.sort();
        let mut want_actions: Vec<String> = actions.iter().filter(|a| !unactions.contains(a)).map(|v| v.to_string()).collect();
        want_actions.sort();
        want_actions.dedup();
        if got_actions != want_actions {
            return Err(format!("page {}{}: procedural_actions {:?}, expected {:?}", p.host, how, got_actions, want_actions));
        }
        // scriptlets: one try-block per surviving injection (templates with a unique marker)
        let mut want_js: BTreeSet<String> = BTreeSet::new();
        if !blanket {
            for s in scripts.difference(&unscripts) {
                let (n, a) = match s.split_once(", ") { Some((n, a)) => (n, a), None => (s.as_str(), "{{1}}") };
                let marker = match n { "sa" | "sa.js" => "SA", "sb" => "SB", "sc" => "SC", _ => continue };
                want_js.insert(format!("/*{} {}*/", marker, a));
            }
        }
        let got_js: BTreeSet<String> = got.injected_script.lines().filter(|l| l.starts_with("/*")).map(|l| l.to_string()).collect();
        if got_js != want_js {
            return Err(format!("page {}{}: injected scriptlets {:?}, expected {:?}", p.host, how, got_js, want_js));
        }
        if (p.host.matches('.').count() >= 2 && via_parent_or_entity) || !unhide.is_empty() || !unactions.is_empty() || !unscripts.is_empty() || blanket {
            obs.nontrivial = true;
        }
        if via_parent_or_entity { obs.label("covered-via-parent-or-entity"); }
        if !unhide.is_empty() { obs.label("exception-applies"); }
        if gh { obs.label("generichide"); }
        if !want_js.is_empty() { obs.label("scriptlet"); }
        if !want_actions.is_empty() { obs.label("action"); }
        if !p.host.is_ascii() { obs.label("idn-page"); }
    }
    }
    Ok(())
}

const SITES: &[(&str, &str)] = &[("example", "com"), ("site", "co.uk"), ("shop", "com.au"), ("user", "github.io"), ("news", "de"), ("bücher", "de"), ("пример", "рф"), ("example", "org"), ("site", "com")];
const SELS: &[&str] = &[".ad", "#banner", "div.ad", ".ad > .x", "a[href*=\"ad\"]", "#top.ad", "iframe", ".sponsor", "div > span"];

fn decode(t: &mut Tape) -> CosCase {
    let mut pages = vec![];
    for _ in 0..(1 + t.pick(3)) {
        let (main, suffix) = t.choose(SITES);
        let reg = format!("{}.{}", main, suffix);
        let mut host = reg.clone();
        for _ in 0..[0usize, 1, 1, 2, 3, 4, 8, 10, 13][t.pick(9)] {
            host = format!("{}.{}", t.choose(&["www", "a", "b", "m", "deep"]), host);
        }
        pages.push(Page { host, reg, suffix: suffix.to_string() });
    }
    // sometimes query a bare public suffix right before a site below it (per-query state such as a
    // "last registrable domain" shortcut would go wrong there)
    if t.chance(1, 4) {
        // only suffixes whose first label is not itself used as a hostname location elsewhere
        // ("com.au" would make the entity stem "com" coincide with the hostname location "com")
        let suffix = t.choose(&["co.uk", "github.io"]);
        if let Some((_, rest)) = suffix.split_once('.') {
            let sfx_page = Page { host: suffix.to_string(), reg: suffix.to_string(), suffix: rest.to_string() };
            let at = t.pick(pages.len() + 1);
            pages.insert(at.min(pages.len()), sfx_page);
            let main = t.choose(&["example", "site", "shop"]);
            let reg = format!("{}.{}", main, suffix);
            let host = if t.chance(1, 2) { reg.clone() } else { format!("www.{}", reg) };
            pages.push(Page { host, reg, suffix: suffix.to_string() });
        }
    }
    let loc = |t: &mut Tape, pages: &[Page]| -> Loc {
        let p = t.choose_ref(pages).clone();
        match t.pick(10) {
            0 => Loc::Host(p.host.clone()),
            1 => Loc::Host(p.reg.clone()),
            2 => {
                // some parent between host and registrable domain
                let sfx = label_suffixes(&p.host, &p.reg);
                Loc::Host(t.choose_ref(&sfx).clone())
            }
            3 => Loc::Host(p.suffix.clone()),
            4 => Loc::Host(format!("sub.{}", p.host)), // deeper than the page: must not cover
            5 => {
                let stem = p.reg.strip_suffix(&format!(".{}", p.suffix)).unwrap_or("example").to_string();
                Loc::Entity(stem)
            }
            6 => {
                // entity with subdomain labels
                let stem = p.host.strip_suffix(&format!(".{}", p.suffix)).unwrap_or("example").to_string();
                let parts: Vec<&str> = stem.split('.').collect();
                let k = t.pick(parts.len());
                Loc::Entity(parts[k..].join("."))
            }
            7 => Loc::Entity(t.choose(&["other", "exampl", "xexample", "site"]).to_string()),
            8 => {
                let (m, s) = t.choose(SITES);
                Loc::Host(format!("{}.{}", m, s))
            }
            _ => Loc::Host(format!("x{}", p.reg)), // look-alike
        }
    };
    let mut rules = vec![];
    for _ in 0..(1 + t.pick(10)) {
        let nloc = [0usize, 1, 1, 1, 2, 3][t.pick(6)];
        let mut locs = vec![];
        for _ in 0..nloc {
            let l = loc(t, &pages);
            locs.push((l, t.chance(1, 5)));
        }
        let any_neg = locs.iter().any(|(_, n)| *n);
        let unhide = nloc > 0 && !any_neg && t.chance(1, 4);
        let sel = t.choose(SELS).to_string();
        let body = if nloc == 0 {
            Body::Hide(sel)
        } else {
            match t.pick(12) {
                0..=5 => Body::Hide(sel),
                6 => Body::Style(sel, t.choose(&["color: red", "display: block !important"]).to_string()),
                7 => Body::Remove(sel),
                8 => Body::RemoveAttr(sel, "onclick".into()),
                9 => Body::RemoveClass(sel, "ad".into()),
                10 if unhide && t.chance(1, 3) => Body::BlanketScript,
                _ => Body::Script(t.choose(&["sa", "sb", "sc", "sa.js", "missing"]).to_string(), if t.chance(1, 2) { Some(t.choose(&["x1", "a.b", "42"]).to_string()) } else { None }),
            }
        };
        rules.push(CRule { locs, unhide, body });
    }
    let mut generichide = vec![];
    if t.chance(1, 3) {
        let p = t.choose_ref(&pages).clone();
        generichide.push(match t.pick(4) {
            0 => p.host.clone(),
            1 => p.reg.clone(),
            2 => format!("sub.{}", p.host),
            _ => format!("x{}", p.reg),
        });
    }
    let mut generichide_dom = vec![];
    if t.chance(1, 3) {
        let p = t.choose_ref(&pages).clone();
        let h = match t.pick(3) {
            0 => None,
            1 => Some(p.reg.clone()),
            _ => Some(p.host.clone()),
        };
        let d = match t.pick(5) {
            0 => p.host.clone(),
            1 => p.reg.clone(),
            2 => format!("sub.{}", p.host),
            3 => p.suffix.clone(),
            _ => "unrelated.org".to_string(),
        };
        generichide_dom.push((h, d, t.chance(1, 3)));
    }
    let spaced: Vec<usize> = (0..rules.len()).filter(|_| t.chance(1, 10)).collect();
    CosCase { rules, generichide, generichide_dom, pages, spaced }
}

pub fn check(ctx: &mut Ctx) {
    ctx.rule = "1-10 cosmetic rules with 0-3 locations drawn relative to the page hosts (the host itself, registrable domain, an intermediate parent, the public suffix, a deeper name, a look-alike, another site, entity forms with and without subdomain labels, 1/5 negated), '##' or '#@#', bodies = plain selector / :style / :remove / :remove-attr / :remove-class / +js(name[, arg]) / blanket '#@#+js()', plus optional '@@||h^$generichide' rules and '@@(*|||h^)$generichide,domain=[~]d' rules (d = page host / registrable domain / deeper / public suffix / unrelated); 1-3 page hosts over 9 sites (multi-label public suffixes, IDN) with 0-4 extra subdomain labels. Oracle: independent coverage model (label suffixes down to the registrable domain, the public suffix, entity = label suffix of host minus suffix), set algebra for hide/exceptions/actions/scriptlets, generic non-class/id selectors unless generichide, generichide via the pattern reference model; actions compared as parsed JSON, scriptlets by unique template markers. Non-trivial = page with >= 3 labels covered through a parent/entity location, or an exception that removes something.".into();
    ctx.assumptions = vec![
        "entity names are never equal to a public-suffix label and hostname locations always contain a dot unless they are the page's public suffix (the two namespaces share hash bins in the implementation; coinciding spellings are outside the property)".into(),
        "registrable domain / public suffix of page hosts are known by construction".into(),
    ];
    let n = ctx.tier.pick(600_000, 5_000_000);
    drive(ctx, "sites", n, 400, &decode, &check_case);
}

pub fn replay(ctx: &mut Ctx, v: &Value) {
    replay_file::<CosCase>(ctx, v, &check_case);
}
