//! C05 — rule optimisation never changes any verdict.

use crate::eng::*;
use crate::gen::{self, NetCase, NetCfg};
use crate::run::{drive, replay_file, Ctx, Obs, Tape};
use adblock::blocker::{Blocker, BlockerOptions};
use adblock::lists::parse_filters;
use adblock::resources::ResourceStorage;
use serde_json::Value;
use std::collections::HashSet;

fn same_verdict(a: &Verdict, b: &Verdict, spec_redirects: impl FnOnce() -> std::collections::BTreeSet<Option<String>>) -> Result<(), String> {
    let mut a2 = a.clone();
    let mut b2 = b.clone();
    if a2.redirect != b2.redirect {
        let acc = spec_redirects();
        if acc.contains(&a2.redirect) && acc.contains(&b2.redirect) {
            a2.redirect = None;
            b2.redirect = None;
        }
    }
    if a2 == b2 { Ok(()) } else { Err(format!("unoptimised {:?} vs optimised {:?}", a, b)) }
}

pub fn check_case(c: &NetCase, obs: &mut Obs) -> Result<(), String> {
    let res = gen::std_resources();
    let mut e0 = build_engine(&c.rules, true, false, &res);
    let mut e1 = build_engine(&c.rules, true, true, &res);
    let tag_refs: Vec<&str> = c.tags.iter().map(|s| s.as_str()).collect();
    e0.use_tags(&tag_refs);
    e1.use_tags(&tag_refs);
    let tags: HashSet<String> = c.tags.iter().cloned().collect();
    let parsed = parse_network(&c.rules);
    let active = active_rules(&parsed);
    for r in &c.reqs {
        let Some(req) = mk_request(r) else { continue };
        obs.inner_evals += 1;
        let r0 = e0.check_network_request(&req);
        let r1 = e1.check_network_request(&req);
        let fused = r1.filter.as_deref().map(|s| s.contains(" <+> ")).unwrap_or(false)
            || r1.exception.as_deref().map(|s| s.contains(" <+> ")).unwrap_or(false);
        if fused {
            obs.nontrivial = true;
            obs.label("fused-rule-decided");
        }
        if r0.filter.is_some() {
            obs.label("hit");
        }
        let (v0, v1) = (Verdict::of(&r0), Verdict::of(&r1));
        same_verdict(&v0, &v1, || combine(&hits_of(&active, &req), &tags, &req, &r.url, &res).redirect)
            .map_err(|e| format!("request {:?}: {}", r, e))?;
        let c0 = e0.get_csp_directives(&req).map(|s| split_csp(&s, &[]));
        let c1 = e1.get_csp_directives(&req).map(|s| split_csp(&s, &[]));
        if c0 != c1 {
            return Err(format!("request {:?}: csp unoptimised {:?} vs optimised {:?}", r, c0, c1));
        }
    }
    Ok(())
}

/// Blocker::optimize() on a live, already queried blocker changes no answer.
pub fn check_live(c: &NetCase, obs: &mut Obs) -> Result<(), String> {
    let res = ResourceStorage::from_resources(gen::std_resources());
    let (nf, _) = parse_filters(&c.rules, true, std_opts());
    let mut b = Blocker::new(nf, &BlockerOptions { enable_optimizations: false });
    let tag_refs: Vec<&str> = c.tags.iter().map(|s| s.as_str()).collect();
    b.use_tags(&tag_refs);
    let reqs: Vec<_> = c.reqs.iter().filter_map(|r| mk_request(r).map(|q| (r, q))).collect();
    let before: Vec<_> = reqs.iter().map(|(_, q)| (Verdict::of(&b.check(q, &res)), b.get_csp_directives(q).map(|s| split_csp(&s, &[])))).collect();
    b.optimize();
    let rl = gen::std_resources();
    let tags: HashSet<String> = c.tags.iter().cloned().collect();
    let parsed = parse_network(&c.rules);
    let active = active_rules(&parsed);
    for ((r, q), (v0, c0)) in reqs.iter().zip(before.iter()) {
        obs.inner_evals += 1;
        let r1 = b.check(q, &res);
        if r1.filter.as_deref().map(|s| s.contains(" <+> ")).unwrap_or(false)
            || r1.exception.as_deref().map(|s| s.contains(" <+> ")).unwrap_or(false)
        {
            obs.nontrivial = true;
            obs.label("fused-rule-decided");
        }
        let v1 = Verdict::of(&r1);
        same_verdict(v0, &v1, || combine(&hits_of(&active, q), &tags, q, &r.url, &rl).redirect)
            .map_err(|e| format!("request {:?} after optimize(): {}", r, e))?;
        let c1 = b.get_csp_directives(q).map(|s| split_csp(&s, &[]));
        if *c0 != c1 {
            return Err(format!("request {:?}: csp before optimize() {:?} after {:?}", r, c0, c1));
        }
    }
    Ok(())
}

pub fn decode(t: &mut Tape) -> NetCase {
    gen::net_case(t, &NetCfg { max_rules: 40, ..Default::default() })
}
pub fn decode_fuse(t: &mut Tape) -> NetCase {
    gen::fuse_case(t)
}

pub fn check(ctx: &mut Ctx) {
    ctx.rule = "fuse: 2-25 rules sharing one token and one of 9 option sets but differing in pattern kind (plain, *, ^, /regex/, |, right-anchored), tag, exception, important, redirect, domain; std: C01-style lists up to 40 rules; big-group: 2-800 same-shape fusable rules (sizes around 16/32/64/128/256/512) with one request per rule; tokenless: 2-11 rules without any indexable token (empty pattern, '*', one-character words) that all share the fallback bucket; live: Blocker::new(optimize=false) -> queries -> optimize() -> same queries. Differential oracle: optimised vs unoptimised engine, all verdict fields + csp set (debug text ignored; redirect ties free). Non-trivial = the optimised engine's answer was decided by a fused rule (debug text contains ' <+> ').".into();
    ctx.assumptions = vec!["both engines are built from the same parsed list; debug mode is on only to observe fusion".into()];
    let n = ctx.tier.pick(200_000, 2_500_000);
    drive(ctx, "fuse", n, 400, &decode_fuse, &check_case);
    let n = ctx.tier.pick(80_000, 1_000_000);
    drive(ctx, "std", n, 1200, &decode, &check_case);
    let n = ctx.tier.pick(100_000, 1_500_000);
    drive(ctx, "tokenless", n, 300, &|t| gen::tokenless_case(t), &check_case);
    let n = ctx.tier.pick(20_000, 200_000);
    drive(ctx, "long-url", n, 600, &|t| gen::long_url_case(t), &check_case);
    let n = ctx.tier.pick(400, 8_000);
    drive(ctx, "big-group", n, 120, &|t| gen::big_group_case(t), &check_case);
    let n = ctx.tier.pick(300, 6_000);
    drive(ctx, "big-group-live", n, 120, &|t| gen::big_group_case(t), &check_live);
    let n = ctx.tier.pick(100_000, 1_000_000);
    drive(ctx, "live", n, 400, &decode_fuse, &check_live);
    let (per, len) = ctx.tier.pick((2, 3000), (10, 12000));
    for fc in super::c08::real_list_slices(ctx, per, len) {
        let nc = NetCase { rules: fc.rules.into_iter().filter(|r| !r.contains("##") && !r.contains("#@#") && !r.contains("#?#")).collect(), tags: vec![], reqs: fc.reqs };
        crate::run::run_one(ctx, "real-lists", &nc, &check_case);
        crate::run::run_one(ctx, "real-lists-live", &nc, &check_live);
    }
}

pub fn replay(ctx: &mut Ctx, v: &Value) {
    match v.get("check").and_then(|c| c.as_str()) {
        Some("live") => replay_file::<NetCase>(ctx, v, &check_live),
        _ => replay_file::<NetCase>(ctx, v, &check_case),
    }
}
