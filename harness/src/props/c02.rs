//! C02 — a rule's pattern matches a URL exactly when ABP pattern semantics say so.

use crate::eng::*;
use crate::gen::{self, OptCfg};
use crate::model::pat;
use crate::run::{drive, replay_file, run_indexed, Case, Ctx, Obs, Tape};
use adblock::filters::network::{NetworkFilter, NetworkMatchable};
use adblock::lists::{parse_filter, ParsedFilter};
use adblock::regex_manager::RegexManager;
use adblock::request::Request;
use serde::{Deserialize, Serialize};
use serde_json::{json, Value};

#[derive(Clone, Debug, Serialize, Deserialize)]
pub struct PatCase {
    pub pattern: String,
    /// empty = the built-in URL universe
    pub urls: Vec<String>,
}

impl Case for PatCase {
    fn smaller(&self) -> Vec<Self> {
        let mut v = vec![];
        if self.urls.len() > 1 {
            for u in &self.urls {
                v.push(PatCase { pattern: self.pattern.clone(), urls: vec![u.clone()] });
            }
        }
        // drop one pattern char
        let cs: Vec<char> = self.pattern.chars().collect();
        if cs.len() > 1 && !self.urls.is_empty() {
            for i in 0..cs.len() {
                let mut d = cs.clone();
                d.remove(i);
                v.push(PatCase { pattern: d.into_iter().collect(), urls: self.urls.clone() });
            }
        }
        v
    }
}

const SOURCE: &str = "https://zzz-initiator.example/";

fn parse_rule(line: &str) -> Option<NetworkFilter> {
    match parse_filter(line, true, std_opts()) {
        Ok(ParsedFilter::Network(f)) => Some(f),
        _ => None,
    }
}

/// (host, char offset of host in url) by an independent scan; None when outside the domain
fn host_of(url: &str) -> Option<(String, usize)> {
    let i = url.find("://")?;
    let scheme = &url[..i];
    if !["http", "https", "ws", "wss"].contains(&scheme) {
        return None;
    }
    let rest = &url[i + 3..];
    // userinfo / backslashes in the authority: outside the compared domain
    let auth_end = rest.find(|c| c == '/' || c == '?' || c == '#').unwrap_or(rest.len());
    if rest[..auth_end].contains('@') || rest[..auth_end].contains('\\') {
        return None;
    }
    let e = rest.find(|c| c == '/' || c == '?' || c == '#' || c == ':').unwrap_or(rest.len());
    let host = &rest[..e];
    if host.is_empty() || !host.chars().all(|c| c.is_ascii_lowercase() || c.is_ascii_digit() || c == '.' || c == '-') {
        return None;
    }
    // non-empty path
    let after = &rest[e..];
    let path_start = after.find('/')?;
    if after[..path_start].chars().any(|c| c == '?' || c == '#') {
        return None;
    }
    if !url.is_ascii() {
        return None;
    }
    Some((host.to_string(), url[..i + 3].chars().count()))
}

fn scheme_special(p: &str) -> bool {
    // with or without an explicit end anchor: `|https://|` is converted to a scheme mask as well
    let q = if p.len() > 2 { p.strip_suffix('|').unwrap_or(p) } else { p };
    matches!(q, "|ws://" | "|http://" | "|https://" | "|http*://" | "|wss://")
}

struct Flags {
    host_right_open: bool,
    scheme_mask_open: bool,
}

fn strict_excluded(p: &str, fl: &Flags) -> Option<&'static str> {
    if let Some(r) = pat::degenerate(p) {
        return Some(r);
    }
    let ast = pat::parse(p);
    if fl.host_right_open && host_right_shape(&ast) {
        return Some("||HOST| (known finding C02-host-right-anchor)");
    }
    if fl.scheme_mask_open && scheme_special(p) {
        return Some("scheme-only pattern (known finding C02-scheme-pattern-mask)");
    }
    None
}

fn universe() -> Vec<String> {
    let hosts = ["a.b", "b.a.b", "ab.b", "a.b.a.b", "ba.b.a.b", "a.a", "xa.b", "b.a", "a.ba", "a.b.b"];
    // (incl. the punctuation that is NOT a separator for '^': % _ - and the dot)
    let paths = ["/", "/a", "/b", "/ab", "/a/b", "/a.b", "/b/a", "/a/", "/ba", "//a", "/a?b", "/a.b/a", "/b.a/b", "/a/b/", "/.a", "/a..b", "/aa/b.", "/a%b", "/a_b", "/a-b", "/b%", "/a%2fb", "/a=b", "/a&b", "/a:b"];
    let mut v = vec![];
    for h in hosts {
        for p in paths {
            v.push(format!("http://{}{}", h, p));
        }
    }
    for (h, p) in [("a.b", "/a"), ("b.a.b", "/b/a"), ("ab.b", "/")] {
        v.push(format!("https://{}{}", h, p));
        v.push(format!("http://{}:8{}", h, p));
        v.push(format!("ws://{}{}", h, p));
    }
    v
}

/// `||HOST|` and `||HOST^|`: the explicit end anchor is conflated with a trailing `^`
fn host_right_shape(a: &pat::Pat) -> bool {
    a.anchor == pat::Anchor::Host && a.right && (a.body.is_empty() || a.body == [pat::Piece::Caret])
}

fn fl(open_host_right: bool, open_scheme: bool) -> Flags {
    Flags { host_right_open: open_host_right, scheme_mask_open: open_scheme }
}

fn check_pat_with(c: &PatCase, obs: &mut Obs, flags: &Flags) -> Result<(), String> {
    let Some(f) = parse_rule(&c.pattern) else {
        obs.exclude("pattern rejected by the parser");
        return Ok(());
    };
    let uni;
    let urls: &Vec<String> = if c.urls.is_empty() {
        uni = universe();
        &uni
    } else {
        &c.urls
    };
    let excl = strict_excluded(&c.pattern, flags);
    let ast = pat::parse(&c.pattern);
    let single = build_engine(&[c.pattern.clone()], false, false, &[]);
    let mut rm = RegexManager::default();
    // weakened variants (checked on every pattern, degenerate included)
    let mut weak = weakenings(&c.pattern, flags);
    if weak.len() > 24 {
        // long patterns: a deterministic sample of the weakenings (each one compiles a regex)
        let step = weak.len() / 24 + 1;
        weak = weak.into_iter().step_by(step).collect();
    }
    let weak_f: Vec<(String, NetworkFilter)> = weak.into_iter().filter_map(|w| parse_rule(&w).map(|f| (w, f))).collect();
    for u in urls {
        let Some((host, hstart)) = host_of(u) else {
            obs.exclude("url outside the domain (host not lower-case ascii / empty path)");
            continue;
        };
        let Ok(req) = Request::new(u, SOURCE, "script") else { continue };
        obs.inner_evals += 1;
        let got = f.matches(&req, &mut rm);
        if let Some(_reason) = excl {
            obs.label("degenerate-weakening-only");
        } else {
            let want = pat::matches(&ast, u, &host, hstart);
            if want {
                obs.nontrivial = true;
                obs.label("reference-matches");
            }
            obs.label(shape_label(&ast));
            if got != want {
                return Err(format!(
                    "REPLAY_CASE:{}\npattern {:?} on {:?}: reference says {}, NetworkFilter::matches says {}",
                    serde_json::to_string(&PatCase { pattern: c.pattern.clone(), urls: vec![u.clone()] }).unwrap(),
                    c.pattern, u, want, got
                ));
            }
            // the engine indexes at most 127 URL tokens (documented limit; C01 states it)
            let eng = if super::c01::approx_tokens(u) >= 120 { want } else { single.check_network_request(&req).matched };
            if eng != want {
                return Err(format!(
                    "REPLAY_CASE:{}\npattern {:?} on {:?}: reference says {}, single-rule engine says matched={}",
                    serde_json::to_string(&PatCase { pattern: c.pattern.clone(), urls: vec![u.clone()] }).unwrap(),
                    c.pattern, u, want, eng
                ));
            }
        }
        if got {
            for (w, wf) in &weak_f {
                if !wf.matches(&req, &mut RegexManager::default()) {
                    return Err(format!(
                        "REPLAY_CASE:{}\n{:?} matches {:?} but its weakening {:?} does not",
                        serde_json::to_string(&PatCase { pattern: c.pattern.clone(), urls: vec![u.clone()] }).unwrap(),
                        c.pattern, u, w
                    ));
                }
                obs.label("weakening-checked");
            }
        }
    }
    Ok(())
}

fn shape_label(a: &pat::Pat) -> &'static str {
    let re = a.body.iter().any(|p| !matches!(p, pat::Piece::Lit(_)));
    match (&a.anchor, a.right, re) {
        (pat::Anchor::None, false, false) => "plain",
        (pat::Anchor::None, true, false) => "right",
        (pat::Anchor::Left, false, false) => "left",
        (pat::Anchor::Left, true, false) => "left-right",
        (pat::Anchor::Host, false, false) => "host",
        (pat::Anchor::Host, true, false) => "host-right",
        (pat::Anchor::Host, _, true) => "host-regex",
        (_, _, true) => "regex",
    }
}

fn is_full_regex_shape(p: &str) -> bool {
    let r = p.strip_prefix("||").or_else(|| p.strip_prefix('|')).unwrap_or(p);
    let r = r.strip_suffix('|').unwrap_or(r);
    r.len() > 1 && r.starts_with('/') && r.ends_with('/')
}

fn weakenings(p: &str, flags: &Flags) -> Vec<String> {
    let mut v = vec![];
    if is_full_regex_shape(p) || p.contains('\\') {
        return v;
    }
    let ast = pat::parse(p);
    if flags.host_right_open && host_right_shape(&ast) {
        return v;
    }
    if flags.scheme_mask_open && scheme_special(p) {
        return v;
    }
    if ast.anchor == pat::Anchor::Host && (ast.host.is_empty() || ast.host.starts_with("www.")) {
        return v;
    }
    // delete an anchor
    // (only when the remaining text does not itself begin / end with '|': that character would be
    // re-read as an anchor, e.g. "b||" minus its end anchor is the literal "b|", not "b" + anchor)
    if let Some(r) = p.strip_prefix("||") {
        if !r.starts_with('|') {
            v.push(r.to_string()); // ||HOST -> HOST
        }
    } else if let Some(r) = p.strip_prefix('|') {
        if !r.starts_with('|') {
            v.push(r.to_string());
        }
    }
    if let Some(r) = p.strip_suffix('|') {
        if !r.is_empty() && r != "|" && r != "||" && !r.ends_with('|') {
            v.push(r.to_string());
        }
    }
    // append '*'
    if !p.ends_with('|') {
        v.push(format!("{}*", p));
    }
    // replace one literal char or '^' by '*'
    let start = if p.starts_with("||") { 2 } else if p.starts_with('|') { 1 } else { 0 };
    let end = if p.ends_with('|') && p.len() > start { p.len() - 1 } else { p.len() };
    let cs: Vec<char> = p.chars().collect();
    for i in start..end.min(cs.len()) {
        if cs[i] != '*' {
            let mut d = cs.clone();
            d[i] = '*';
            v.push(d.into_iter().collect());
        }
    }
    v.retain(|w| !is_full_regex_shape(w) && !w.is_empty() && !(flags.scheme_mask_open && scheme_special(w)));
    // a weakening must not become a host+right-anchor-with-empty-body shape while that finding is open
    v.retain(|w| {
        let a = pat::parse(w);
        !(flags.host_right_open && host_right_shape(&a))
            && !(a.anchor == pat::Anchor::Host && (a.host.is_empty() || a.host.starts_with("www.")))
    });
    v
}

// ---- exhaustive enumeration over a small alphabet --------------------------------------------

const ALPHA: &[char] = &['a', 'b', '.', '/', '*', '^'];

fn nth_pattern(mut i: u64, max_len: u32) -> Option<String> {
    // i -> (anchor variant 0..6, body over ALPHA of length 1..=max_len)
    let variant = i % 6;
    i /= 6;
    let mut len = 1u32;
    let mut count = ALPHA.len() as u64;
    while i >= count {
        i -= count;
        len += 1;
        if len > max_len {
            return None;
        }
        count *= ALPHA.len() as u64;
    }
    let mut body = String::new();
    for _ in 0..len {
        body.push(ALPHA[(i % ALPHA.len() as u64) as usize]);
        i /= ALPHA.len() as u64;
    }
    let p = match variant {
        0 => body,
        1 => format!("|{}", body),
        2 => format!("||{}", body),
        3 => format!("{}|", body),
        4 => format!("|{}|", body),
        _ => format!("||{}|", body),
    };
    Some(p)
}

fn total_patterns(max_len: u32) -> u64 {
    let mut t = 0u64;
    let mut c = 1u64;
    for _ in 0..max_len {
        c *= ALPHA.len() as u64;
        t += c;
    }
    t * 6
}

// ---- full regex rules ---------------------------------------------------------------------------

#[derive(Clone, Debug, Serialize, Deserialize)]
pub struct ReCase {
    pub regex: String,
    pub match_case: bool,
    pub urls: Vec<String>,
}
impl Case for ReCase {
    fn smaller(&self) -> Vec<Self> {
        let mut v = vec![];
        if self.urls.len() > 1 {
            for u in &self.urls {
                v.push(ReCase { urls: vec![u.clone()], ..self.clone() });
            }
        }
        v
    }
}

fn check_regex(c: &ReCase, obs: &mut Obs) -> Result<(), String> {
    let line = if c.match_case { format!("/{}/$match-case", c.regex) } else { format!("/{}/", c.regex) };
    let Some(f) = parse_rule(&line) else {
        obs.exclude("regex rule rejected by the parser");
        return Ok(());
    };
    // oracle: the regex crate itself applied to the URL (the rule text unescapes \/ and \: only)
    let unesc = c.regex.replace("\\/", "/").replace("\\:", ":");
    let Ok(re) = regex::bytes::RegexBuilder::new(&unesc).unicode(false).case_insensitive(!c.match_case).build() else {
        obs.exclude("regex does not compile");
        return Ok(());
    };
    let mut rm = RegexManager::default();
    for u in &c.urls {
        if host_of(u).is_none() {
            obs.exclude("url outside the domain (host not lower-case ascii / empty path)");
            continue;
        }
        let Ok(req) = Request::new(u, SOURCE, "script") else { continue };
        obs.inner_evals += 1;
        let want = re.is_match(req.url.as_bytes());
        let got = f.matches(&req, &mut rm);
        if want {
            obs.nontrivial = true;
        }
        if want != got {
            return Err(format!("regex rule {:?} on {:?}: regex crate says {}, rule says {}", line, u, want, got));
        }
    }
    Ok(())
}

fn decode_regex(t: &mut Tape) -> ReCase {
    let pool: Vec<String> = (0..(1 + t.pick(3))).map(|_| gen::url(t)).collect();
    let u = t.choose_ref(&pool).clone();
    let after = u.find("://").map(|i| i + 3).unwrap_or(0);
    let len = 2 + t.pick(8);
    let start = after + t.pick(u.len().saturating_sub(after + len).max(1));
    let piece: String = u.chars().skip(start).take(len).collect();
    let mut re = String::new();
    for ch in piece.chars() {
        if "\\.+*?()|[]{}^$/".contains(ch) {
            re.push('\\');
            re.push(ch);
        } else {
            match t.pick(14) {
                0 => re.push_str("\\d"),
                1 => re.push_str("\\w"),
                2 => re.push_str("\\D"),
                3 => re.push_str("\\W"),
                4 if t.chance(1, 3) => {
                    // a class listing the character between other members, with identity escapes
                    let e = regex::escape(&ch.to_string());
                    re.push_str(t.choose(&["[.\\-_CH]", "[_\\-.CH]", "[CH\\-.]", "[\\_CH.]"]).replace("CH", &e).as_str());
                }
                4 => re.push_str("[a-z]"),
                5 => re.push_str("[A-Z0-9]"),
                6 => {
                    re.push(ch);
                    re.push('?');
                }
                7 => re.push_str(".+"),
                8 => re.push_str(&format!("(?:{}|zz)", regex::escape(&ch.to_string()))),
                9 => re.push_str(&format!("{}{{1,2}}", regex::escape(&ch.to_string()))),
                10 => re.push_str("\\S"),
                11 => re.push(ch.to_ascii_uppercase()),
                _ => re.push(ch),
            }
        }
    }
    match t.pick(6) {
        0 => re = format!("^https?:\\/\\/.*{}", re),
        1 => re = format!("{}$", re),
        2 => re = format!("{}\\b", re),
        _ => {}
    }
    let mut urls = pool.clone();
    for _ in 0..3 {
        let b = t.choose_ref(&pool).clone();
        urls.push(gen::perturb(t, &b));
    }
    ReCase { regex: re, match_case: t.chance(1, 4), urls }
}

// ---- random patterns --------------------------------------------------------------------------

/// 2-5 patterns cut from ONE URL pool (so they share tokens and usually one bucket) loaded together
/// into an optimising engine: the engine blocks a URL iff the reference says some pattern matches
#[derive(Clone, Debug, Serialize, Deserialize)]
pub struct FamCase {
    pub patterns: Vec<String>,
    pub urls: Vec<String>,
}

impl Case for FamCase {
    fn smaller(&self) -> Vec<Self> {
        let mut v = vec![];
        if self.urls.len() > 1 {
            for u in &self.urls {
                v.push(FamCase { patterns: self.patterns.clone(), urls: vec![u.clone()] });
            }
        }
        if self.patterns.len() > 1 {
            for i in 0..self.patterns.len() {
                let mut c = self.clone();
                c.patterns.remove(i);
                v.push(c);
            }
        }
        v
    }
}

fn check_family_with(c: &FamCase, obs: &mut Obs, flags: &Flags) -> Result<(), String> {
    let mut asts = vec![];
    for p in &c.patterns {
        if parse_rule(p).is_none() {
            obs.exclude("pattern rejected by the parser");
            return Ok(());
        }
        if strict_excluded(p, flags).is_some() {
            obs.exclude("family with a degenerate pattern / known-finding shape");
            return Ok(());
        }
        asts.push(pat::parse(p));
    }
    let engine = build_engine(&c.patterns, false, true, &[]);
    let plain = build_engine(&c.patterns, false, false, &[]);
    for u in &c.urls {
        let Some((host, hstart)) = host_of(u) else {
            obs.exclude("url outside the domain (host not lower-case ascii / empty path)");
            continue;
        };
        if super::c01::approx_tokens(u) >= 120 {
            continue;
        }
        let Ok(req) = Request::new(u, SOURCE, "script") else { continue };
        obs.inner_evals += 1;
        let each: Vec<bool> = asts.iter().map(|a| pat::matches(a, u, &host, hstart)).collect();
        let want = each.iter().any(|b| *b);
        if want {
            obs.nontrivial = true;
        }
        for (e, how) in [(&engine, "optimising"), (&plain, "non-optimising")] {
            let got = e.check_network_request(&req).matched;
            if got != want {
                return Err(format!(
                    "REPLAY_CASE:{}\npatterns {:?} on {:?}: reference says {:?} per pattern, the {} engine holding all of them says matched={}",
                    serde_json::to_string(&FamCase { patterns: c.patterns.clone(), urls: vec![u.clone()] }).unwrap(),
                    c.patterns, u, each, how, got
                ));
            }
        }
    }
    Ok(())
}

fn decode_family(t: &mut Tape) -> FamCase {
    let first = decode_random(t);
    // the pool is the first part of the url list
    let pool: Vec<String> = first.urls.iter().take(first.urls.len().saturating_sub(4)).cloned().collect();
    let cfg = OptCfg { allow_tag: false, allow_badfilter: false, allow_modifiers: false, allow_generichide: false, allow_unsupported_tag_combos: false };
    let mut patterns = vec![first.pattern.clone()];
    for _ in 0..(1 + t.pick(4)) {
        let mut line = if t.chance(1, 3) {
            // a sibling of the first pattern: same text with another anchor / tail
            let b = first.pattern.trim_start_matches('|').trim_end_matches('|').to_string();
            match t.pick(8) {
                0 => format!("|{}", b),
                1 => format!("{}|", b),
                2 => format!("{}^", b),
                3 => format!("{}*x|", b),
                // pinned on both sides: the whole URL, and a longer whole URL with the same prefix
                4 => format!("|{}|", b),
                5 => format!("|{}{}|", b, gen::word(t)),
                6 => format!("{}{}|", b, gen::word(t)),
                _ => format!("|{}*{}", b, gen::word(t)),
            }
        } else {
            gen::net_rule(t, &pool, &[], &cfg)
        };
        if let Some(i) = line.rfind('$') {
            line.truncate(i);
        }
        patterns.push(line.trim_start_matches("@@").to_string());
    }
    let mut urls = first.urls;
    if t.chance(1, 4) && !pool.is_empty() {
        // whole-URL rules (`|url|`) for a pool URL, a proper prefix of it and an extension of it
        let u: String = pool[0].chars().filter(|c| !"*^|$\\".contains(*c)).collect();
        if let Some(i) = u.find("://") {
            if let Some(j) = u[i + 3..].find('/') {
                let min = i + 3 + j + 1; // keep at least scheme://host/
                if u.len() > min && u.is_char_boundary(min) {
                    let cs: Vec<(usize, char)> = u.char_indices().filter(|(k, _)| *k >= min).collect();
                    let cut = cs[t.pick(cs.len())].0;
                    let fam = [u.clone(), u[..cut].to_string(), format!("{}a", u), format!("{}/", u)];
                    for f in fam.iter() {
                        if t.chance(2, 3) {
                            patterns.push(format!("|{}|", f));
                        }
                        urls.push(f.clone());
                    }
                }
            }
        }
    }
    FamCase { patterns, urls }
}

fn decode_random(t: &mut Tape) -> PatCase {
    let mut pool = vec![];
    for _ in 0..(1 + t.pick(3)) {
        let mut p = gen::url_parts(t);
        // hosts in which an anchor text can occur 0/1/2+ times
        if t.chance(1, 3) {
            let l = t.choose(gen::HOST_LABELS);
            p.host = format!("{}.{}", l, p.host);
            if t.chance(1, 2) {
                p.host = format!("x{}.{}", l, p.host);
            }
        }
        if t.chance(1, 8) {
            p.path = format!("/{}{}", p.host, p.path);
        }
        pool.push(p.render());
    }
    let cfg = OptCfg { allow_tag: false, allow_badfilter: false, allow_modifiers: false, allow_generichide: false, allow_unsupported_tag_combos: false };
    let mut line = gen::net_rule(t, &pool, &[], &cfg);
    if let Some(i) = line.rfind('$') {
        line.truncate(i);
    }
    let line = line.trim_start_matches("@@").to_string();
    let mut urls = pool.clone();
    for _ in 0..4 {
        let b = t.choose_ref(&pool).clone();
        urls.push(gen::perturb(t, &b));
    }
    PatCase { pattern: line, urls }
}

/// long URLs (up to ~300 tokens, mixed case towards the end) and long patterns cut from their
/// tail: up to ~1500 literal characters, or 20-150 `^`/`*` separated segments
fn decode_long(t: &mut Tape) -> PatCase {
    let nseg = 20 + t.pick(280);
    let mut segs: Vec<String> = vec![];
    for i in 0..nseg {
        let w = if t.chance(1, 5) { gen::word(t) } else { format!("s{}", i) };
        segs.push(if i > nseg / 2 && t.chance(1, 3) { w.to_uppercase() } else { w });
    }
    let host = t.choose(&["cdn.example.com", "a.b.c.example.co.uk", "example.com"]);
    let url = format!("https://{}/{}", host, segs.join("/"));
    // pattern from the tail
    let k = 1 + t.pick(segs.len().min(150));
    let tail = &segs[segs.len() - k..];
    let sep = t.choose(&["/", "^", "*", "^*", "/"]);
    let mut body = tail.join(sep);
    if t.chance(1, 2) {
        body = body.to_lowercase();
    }
    if t.chance(1, 6) {
        // one very long literal run
        let run: String = std::iter::repeat('a').take(200 + t.pick(1500)).collect();
        let u2 = format!("{}/{}", url, run);
        let pattern = match t.pick(3) {
            0 => format!("/{}", run),
            1 => format!("/{}*", &run[..run.len() / 2]),
            _ => format!("||{}^*{}", host, &run[..run.len() - 3]),
        };
        return PatCase { pattern, urls: vec![u2, url] };
    }
    let pattern = match t.pick(6) {
        0 => format!("/{}", body),
        1 => format!("/{}|", body),
        2 => format!("||{}^*/{}", host, body),
        3 => format!("||example.com/*{}", body),
        4 => format!("{}^", body),
        _ => body.clone(),
    };
    let mut urls = vec![url.clone()];
    // a near miss: one segment changed near the end
    let mut s2 = segs.clone();
    let j = s2.len() - 1 - t.pick(k.min(s2.len()));
    s2[j] = format!("{}q", s2[j]);
    urls.push(format!("https://{}/{}", host, s2.join("/")));
    urls.push(format!("{}?x=1", url));
    PatCase { pattern, urls }
}

fn probe_host_right() -> Result<(), String> {
    check_pat_with(&PatCase { pattern: "||a.b|".into(), urls: vec!["http://a.b/".into(), "http://a.b/a".into()] }, &mut Obs::default(), &fl(false, false))
}
fn probe_scheme_mask() -> Result<(), String> {
    check_pat_with(&PatCase { pattern: "|ws://".into(), urls: vec!["wss://a.b/x".into()] }, &mut Obs::default(), &fl(false, false))
        .and(check_pat_with(&PatCase { pattern: "|http*://".into(), urls: vec!["ws://a.b/x".into()] }, &mut Obs::default(), &fl(false, false)))
}

pub fn check(ctx: &mut Ctx) {
    ctx.rule = "exhaustive: every pattern over {a b . / * ^} up to length 4 (quick) / 6 (thorough) x anchors {none, |, ||, ..|, |..|, ||..|} x a universe of ~180 URLs over the same alphabet (hosts with repeated/overlapping labels, ports, https/ws); random: patterns cut from generated URLs (hosts in which the anchor text occurs several times), ^/* sprinkled, x pool URLs and one-edit perturbations; regex: /re/ rules from a small regex grammar vs the regex crate; long: URLs of 20-300 path segments (mixed case towards the end) with patterns of 1-150 segments joined by '/', '^' or '*' cut from their tail, or literal runs of 200-1700 characters; family: 2-5 patterns cut from one URL pool (1 in 3 a re-anchored sibling of the first; 1 case in 4 adds whole-URL rules `|url|` for a pool URL, a proper prefix and two extensions of it, and those URLs) loaded together into an optimising and a non-optimising engine, which must block a URL iff the reference says some pattern matches it. Strict comparison with the backtracking reference for non-degenerate patterns (both NetworkFilter::matches and a single-rule engine); weakening relations (drop anchor, char->*, append *, ||HOST->HOST) on all patterns. Non-trivial = the reference says the pattern matches the URL.".into();
    ctx.assumptions = vec![
        "domain as stated by C02 plus: empty ||HOST and ||www.… hosts are not compared strictly (the parser strips www. by design)".into(),
        "requests are third-party script requests so that default options never restrict".into(),
    ];
    let f_hr = ctx.is_open("C02-host-right-anchor");
    let f_sm = ctx.is_open("C02-scheme-pattern-mask");
    ctx.probe("C02-host-right-anchor", json!({"pattern": "||a.b|", "urls": ["http://a.b/", "http://a.b/a"]}), probe_host_right());
    ctx.probe("C02-scheme-pattern-mask", json!({"patterns": ["|ws://", "|http*://"], "urls": ["wss://a.b/x", "ws://a.b/x"]}), probe_scheme_mask());
    let check_pat = move |c: &PatCase, o: &mut Obs| check_pat_with(c, o, &fl(f_hr, f_sm));
    let max_len = ctx.tier.pick(4, 6);
    let n = total_patterns(max_len);
    run_indexed(ctx, "exhaustive", n, &|i| nth_pattern(i, max_len).map(|p| PatCase { pattern: p, urls: vec![] }), &check_pat);
    ctx.exhaustive = false; // only the sub-check "exhaustive" is; see coverage.exhaustive_part
    ctx.extra.insert("exhaustive_part".into(), json!({"patterns_enumerated": n, "max_body_len": max_len, "alphabet": "ab./*^", "urls": universe().len()}));
    let n = ctx.tier.pick(200_000, 3_000_000);
    drive(ctx, "random", n, 300, &decode_random, &check_pat);
    let n = ctx.tier.pick(100_000, 1_000_000);
    drive(ctx, "regex", n, 200, &decode_regex, &check_regex);
    let n = ctx.tier.pick(6_000, 120_000);
    drive(ctx, "long", n, 700, &decode_long, &check_pat);
    let n = ctx.tier.pick(60_000, 1_000_000);
    drive(ctx, "family", n, 400, &decode_family, &move |c: &FamCase, o: &mut Obs| check_family_with(c, o, &fl(f_hr, f_sm)));
}

pub fn replay(ctx: &mut Ctx, v: &Value) {
    let f_hr = ctx.is_open("C02-host-right-anchor");
    let f_sm = ctx.is_open("C02-scheme-pattern-mask");
    match v.get("check").and_then(|c| c.as_str()) {
        Some("regex") => replay_file::<ReCase>(ctx, v, &check_regex),
        Some("family") => replay_file::<FamCase>(ctx, v, &move |c: &FamCase, o: &mut Obs| check_family_with(c, o, &fl(f_hr, f_sm))),
        _ => replay_file::<PatCase>(ctx, v, &move |c: &PatCase, o: &mut Obs| check_pat_with(c, o, &fl(f_hr, f_sm))),
    }
}
