//! C08 — a deserialized engine behaves identically to the engine that was serialized.

use crate::eng::*;
use crate::gen::{self, FullCase, NetCfg};
use crate::run::{drive, replay_file, Ctx, Obs, Tape};
use adblock::lists::{FilterSet, ParseOptions};
use adblock::resources::PermissionMask;
use adblock::Engine;
use serde_json::{json, Value};

pub fn check_case(c: &FullCase, obs: &mut Obs) -> Result<(), String> {
    let res = gen::scriptlet_resources();
    let mut e = build_engine(&c.rules, c.debug, c.optimize, &res);
    let bytes = e.serialize_raw().map_err(|x| format!("serialize: {:?}", x))?;
    let mut e2 = Engine::new(c.optimize);
    e2.deserialize(&bytes).map_err(|x| format!("deserialize of own bytes failed: {:?}", x))?;
    e2.use_resources(res.iter().cloned());
    // under the case's tag set and under the empty set
    for tags in [vec![], c.tags.clone()] {
        let tr: Vec<&str> = tags.iter().map(|s| s.as_str()).collect();
        e.use_tags(&tr);
        e2.use_tags(&tr);
        let a = engine_answers(&e, c, None);
        let b = engine_answers(&e2, c, None);
        obs.inner_evals += a.len() as u64;
        if a.iter().any(|s| s.contains("matched: true") || s.contains("exception: true") || s.contains("Some(") || (s.starts_with("page") && !s.contains("hide [] proc [] exc []")) || (s.starts_with("classid") && !s.ends_with("-> []"))) {
            obs.nontrivial = true;
        }
        if a != b {
            let d: Vec<_> = a.iter().zip(b.iter()).filter(|(x, y)| x != y).take(2).collect();
            return Err(format!("tags {:?}: original vs deserialized differ: {:?}", tags, d));
        }
    }
    // a receiving engine that enabled its tags BEFORE loading keeps them (no tag call afterwards)
    if !c.tags.is_empty() {
        let tr: Vec<&str> = c.tags.iter().map(|s| s.as_str()).collect();
        let mut e3 = Engine::new(c.optimize);
        e3.use_tags(&tr);
        e3.deserialize(&bytes).map_err(|x| format!("deserialize of own bytes failed: {:?}", x))?;
        e3.use_resources(res.iter().cloned());
        let a = engine_answers(&e, c, None);
        let b = engine_answers(&e3, c, None);
        obs.inner_evals += a.len() as u64;
        obs.label("tags-enabled-before-load");
        if a != b {
            let d: Vec<_> = a.iter().zip(b.iter()).filter(|(x, y)| x != y).take(2).collect();
            return Err(format!("receiver enabled tags {:?} and then loaded bytes serialized without them: original (same tags) vs loaded differ: {:?}", c.tags, d));
        }
    }
    for r in &c.rules {
        if r.contains("#@#") { obs.label("unhide"); }
        if r.contains("+js(") { obs.label("scriptlet"); }
        if r.contains(":style(") || r.contains(":remove") { obs.label("action"); }
        if r.contains("$") && r.contains("domain=") { obs.label("domain-opt"); }
        if r.contains("csp") { obs.label("csp"); }
        if r.contains("redirect") { obs.label("redirect"); }
        if r.contains("tag=") { obs.label("tag"); }
        if r.contains("generichide") || r.contains("ghide") { obs.label("generichide"); }
        if r.starts_with("/") && r.contains("/$") || r.ends_with('/') && r.starts_with('/') { obs.label("full-regex"); }
    }
    if c.optimize { obs.label("optimize"); }
    if c.debug { obs.label("debug"); }
    Ok(())
}

pub fn decode(t: &mut Tape) -> FullCase {
    gen::full_case(t, &NetCfg { max_rules: 30, ..Default::default() }, 4)
}

fn probe_removeparam() -> Result<(), String> {
    let c = FullCase {
        rules: vec!["*$removeparam=utm".into()],
        tags: vec![],
        reqs: vec![gen::ReqSpec { url: "https://example.com/p?utm=1&x=2".into(), source: "https://example.com/".into(), rtype: "document".into() }],
        pages: vec![], classes: vec![], ids: vec![], debug: false, optimize: false,
    };
    check_case(&c, &mut Obs::default())
}

fn probe_permission() -> Result<(), String> {
    // a permissioned scriptlet requested by a trusted list is injected before, not after, a round trip
    let res = gen::scriptlet_resources();
    let mut fs = FilterSet::new(false);
    fs.add_filters(&["example.com##+js(perm)".to_string()], ParseOptions { permissions: PermissionMask::from_bits(3), ..Default::default() });
    let mut e = Engine::from_filter_set(fs, false);
    e.use_resources(res.iter().cloned());
    let before = e.url_cosmetic_resources("https://example.com/").injected_script;
    let bytes = e.serialize_raw().map_err(|x| format!("{:?}", x))?;
    let mut e2 = Engine::new(false);
    e2.deserialize(&bytes).map_err(|x| format!("{:?}", x))?;
    e2.use_resources(res.iter().cloned());
    let after = e2.url_cosmetic_resources("https://example.com/").injected_script;
    if before != after {
        Err(format!("injected_script before round trip {:?}, after {:?}", before, after))
    } else {
        Ok(())
    }
}

pub fn real_list_slices(ctx: &mut Ctx, per_list: usize, slice_len: usize) -> Vec<FullCase> {
    let mut out = vec![];
    for (path, step) in [
        ("/repo/data/easylist.to/easylist/easylist.txt", 7usize),
        ("/repo/data/easylist.to/easylist/easyprivacy.txt", 5),
        ("/repo/data/uBlockOrigin/filters.txt", 3),
        ("/repo/data/uBlockOrigin/unbreak.txt", 1),
    ] {
        let Ok(txt) = std::fs::read_to_string(path) else { continue };
        let lines: Vec<&str> = txt.lines().collect();
        for k in 0..per_list {
            let start = ((ctx.seed as usize).wrapping_mul(31) + k * 9973 * step) % lines.len().max(1);
            let rules: Vec<String> = lines.iter().cycle().skip(start).take(slice_len).map(|s| s.to_string()).collect();
            // requests derived from the rules themselves: host-anchored rules give URLs
            let mut reqs = vec![];
            let mut pages = vec![];
            for r in rules.iter() {
                if let Some(rest) = r.strip_prefix("||") {
                    let h: String = rest.chars().take_while(|c| c.is_ascii_alphanumeric() || *c == '.' || *c == '-').collect();
                    let tail: String = rest[h.len()..].chars().take_while(|c| *c != '$' && *c != '*').map(|c| if c == '^' { '/' } else { c }).collect();
                    if h.contains('.') && reqs.len() < 40 {
                        reqs.push(gen::ReqSpec { url: format!("https://{}{}", h, if tail.is_empty() { "/".into() } else { tail }), source: "https://example.org/".into(), rtype: "script".into() });
                    }
                } else if let Some(i) = r.find("##") {
                    if i > 0 && pages.len() < 10 {
                        let h = r[..i].split(',').next().unwrap_or("").trim_start_matches('~');
                        if !h.contains('*') && h.contains('.') {
                            pages.push(format!("https://{}/", h));
                        }
                    }
                }
            }
            out.push(FullCase { rules, tags: vec![], reqs, pages, classes: gen::CLASSES.iter().map(|s| s.to_string()).collect(), ids: gen::IDS.iter().map(|s| s.to_string()).collect(), debug: k % 2 == 0, optimize: k % 3 != 0 });
        }
    }
    out
}

pub fn check(ctx: &mut Ctx) {
    ctx.rule = "lists of 1-30 rules mixing every network shape (options, modifiers, tags, domains, hostname/full regexes, fusable rules) and cosmetic shape (hostnames, entities, negations, #@#, :style/:remove*, +js, generichide exceptions), debug on/off, optimise on/off; E=Engine(L), E'=Engine::new().deserialize(E.serialize_raw()); every network query under the empty and the case's tag set (tags set after loading, and on a second receiver enabled BEFORE loading), csp, url_cosmetic_resources, hidden_class_id_selectors must be equal. big-group: 2-800 same-shape rules (mostly optimised, so fused sets cross 64/128/256 patterns) with one request per rule; lists occasionally carry a token-less rule with an 8-41 entry domain= list incl. dot-less hosts and requests whose URL contains those names. Plus deterministic slices of the real lists under /repo/data with requests/pages derived from their own rules. Non-trivial = the original engine gives at least one non-default answer.".into();
    ctx.assumptions = vec![
        "all generated lists use default permissions while finding C08-scriptlet-permission-not-serialized is open".into(),
    ];
    ctx.probe("C08-removeparam-not-serialized", json!({"rules": ["*$removeparam=utm"], "url": "https://example.com/p?utm=1&x=2"}), probe_removeparam());
    ctx.probe("C08-scriptlet-permission-not-serialized", json!({"rules": ["example.com##+js(perm)"], "list_permission": 3, "resource_permission": 1}), probe_permission());
    let n = ctx.tier.pick(150_000, 1_500_000);
    drive(ctx, "roundtrip", n, 1500, &decode, &check_case);
    // large same-shape groups (fused sets beyond 64/128/256 patterns) through the round trip
    let n = ctx.tier.pick(300, 6_000);
    drive(ctx, "big-group", n, 120, &|t| {
        let c = gen::big_group_case(t);
        FullCase { rules: c.rules, tags: c.tags, reqs: c.reqs, pages: vec![], classes: vec![], ids: vec![], debug: t.chance(1, 4), optimize: !t.chance(1, 4) }
    }, &check_case);
    let (per, len) = ctx.tier.pick((3, 1200), (12, 4000));
    for c in real_list_slices(ctx, per, len) {
        crate::run::run_one(ctx, "real-lists", &c, &check_case);
    }
}

pub fn replay(ctx: &mut Ctx, v: &Value) {
    replay_file::<FullCase>(ctx, v, &check_case);
}
