//! C07 — tagged rules are active exactly when their tag is enabled.

use crate::eng::*;
use crate::gen;
use crate::run::{drive, replay_file, Case, Ctx, Obs, Tape};
use adblock::Engine;
use serde::{Deserialize, Serialize};
use serde_json::Value;
use std::collections::BTreeSet;

const POOL: &[&str] = &["t1", "t2", "t3", "social", "x"];

#[derive(Clone, Debug, Serialize, Deserialize, PartialEq)]
pub enum Kind {
    Block,
    Exception,
    Important,
    Csp,
}

#[derive(Clone, Debug, Serialize, Deserialize)]
pub struct TRule {
    pub kind: Kind,
    pub tag: String,
    /// 0 plain, 1 regex-ish (^/*), 2 full regex, 3 hostname anchored
    pub shape: u8,
}

#[derive(Clone, Debug, Serialize, Deserialize)]
pub enum Op {
    Use(Vec<String>),
    Enable(Vec<String>),
    Disable(Vec<String>),
    /// load bytes serialized by a sibling engine (same rules) whose enabled set is `other_tags`
    Reload(Vec<String>),
}

#[derive(Clone, Debug, Serialize, Deserialize)]
pub struct TagCase {
    pub rules: Vec<TRule>,
    pub ops: Vec<Op>,
    pub optimize: bool,
}

impl Case for TagCase {
    fn smaller(&self) -> Vec<Self> {
        let mut v = vec![];
        for i in 0..self.ops.len() {
            let mut c = self.clone();
            c.ops.remove(i);
            v.push(c);
        }
        for i in 0..self.rules.len() {
            let mut c = self.clone();
            c.rules.remove(i);
            v.push(c);
        }
        if self.optimize {
            let mut c = self.clone();
            c.optimize = false;
            v.push(c);
        }
        v
    }
}

fn pattern(i: usize, shape: u8) -> String {
    match shape {
        0 => format!("/uniq{}/x", i), // (a pattern that starts AND ends with '/' would be a regex)
        1 => format!("/uniq{}^*x", i),
        2 => format!("/\\/uniq{}\\/[a-z]/", i),
        _ => format!("||h{}.example.com/uniq{}/", i, i),
    }
}

fn probe_url(i: usize) -> String {
    format!("https://h{}.example.com/uniq{}/x", i, i)
}

fn lines(c: &TagCase) -> Vec<String> {
    let mut out = vec![];
    for (i, r) in c.rules.iter().enumerate() {
        let p = pattern(i, r.shape);
        match r.kind {
            Kind::Block => out.push(format!("{}$tag={}", p, r.tag)),
            Kind::Exception => {
                out.push(format!("/uniq{}/x", i)); // untagged blocker so the exception is observable
                out.push(format!("@@{}$tag={}", p, r.tag));
            }
            Kind::Important => {
                out.push(format!("@@/uniq{}/x", i)); // an exception that the important rule must beat
                out.push(format!("{}$important,tag={}", p, r.tag));
            }
            Kind::Csp => out.push(format!("{}$csp=script-src u{},tag={}", p, i, r.tag)),
        }
    }
    out
}

fn verify(e: &Engine, c: &TagCase, set: &BTreeSet<String>, step: &str, obs: &mut Obs) -> Result<(), String> {
    for t in POOL.iter().chain(["", "unknown"].iter()) {
        if e.tag_exists(t) != set.contains(*t) {
            return Err(format!("{}: tag_exists({:?}) = {} but model set = {:?}", step, t, e.tag_exists(t), set));
        }
    }
    for (i, r) in c.rules.iter().enumerate() {
        obs.inner_evals += 1;
        let active = set.contains(&r.tag);
        let url = probe_url(i);
        let req = adblock::request::Request::new(&url, "https://other.org/", "script").unwrap();
        let doc = adblock::request::Request::new(&url, "https://other.org/", "subdocument").unwrap();
        let b = e.check_network_request(&req);
        let ok = match r.kind {
            Kind::Block => b.matched == active,
            Kind::Exception => b.matched == !active && b.exception.is_some() == active,
            Kind::Important => b.matched == active && b.important == active,
            Kind::Csp => {
                let got = e.get_csp_directives(&doc);
                let want = if active { Some(format!("script-src u{}", i)) } else { None };
                got == want
            }
        };
        if !ok {
            return Err(format!(
                "{}: rule #{} {:?} (tag {:?}, enabled set {:?}) should be {} but probe {} gave matched={} important={} exception={:?} csp={:?}",
                step, i, r.kind, r.tag, set, if active { "active" } else { "inactive" }, url, b.matched, b.important, b.exception,
                e.get_csp_directives(&doc)
            ));
        }
    }
    Ok(())
}

pub fn check_case(c: &TagCase, obs: &mut Obs) -> Result<(), String> {
    let ls = lines(c);
    let res = gen::std_resources();
    let mut e = build_engine(&ls, false, c.optimize, &res);
    let mut set: BTreeSet<String> = BTreeSet::new();
    verify(&e, c, &set, "initial", obs)?;
    let mut changes = 0;
    let mut flipped = false;
    for (k, op) in c.ops.iter().enumerate() {
        let before = set.clone();
        match op {
            Op::Use(ts) => {
                e.use_tags(&ts.iter().map(|s| s.as_str()).collect::<Vec<_>>());
                set = ts.iter().cloned().collect();
            }
            Op::Enable(ts) => {
                e.enable_tags(&ts.iter().map(|s| s.as_str()).collect::<Vec<_>>());
                set.extend(ts.iter().cloned());
            }
            Op::Disable(ts) => {
                e.disable_tags(&ts.iter().map(|s| s.as_str()).collect::<Vec<_>>());
                for t in ts {
                    set.remove(t);
                }
            }
            Op::Reload(other) => {
                let mut sib = build_engine(&ls, false, c.optimize, &res);
                sib.use_tags(&other.iter().map(|s| s.as_str()).collect::<Vec<_>>());
                let bytes = sib.serialize_raw().map_err(|e| format!("serialize failed: {:?}", e))?;
                e.deserialize(&bytes).map_err(|e| format!("deserialize failed: {:?}", e))?;
                obs.label("reload");
                // the caller's enabled set is kept
            }
        }
        if before != set {
            changes += 1;
            if c.rules.iter().any(|r| before.contains(&r.tag) != set.contains(&r.tag)) {
                flipped = true;
            }
        }
        verify(&e, c, &set, &format!("after op #{} {:?}", k, op), obs)?;
    }
    if changes >= 2 && flipped {
        obs.nontrivial = true;
    }
    for r in &c.rules {
        obs.label(match r.kind {
            Kind::Block => "kind-block",
            Kind::Exception => "kind-exception",
            Kind::Important => "kind-important",
            Kind::Csp => "kind-csp",
        });
    }
    Ok(())
}

fn tagset(t: &mut Tape) -> Vec<String> {
    let n = t.pick(4);
    let mut v = vec![];
    for _ in 0..n {
        v.push(if t.chance(1, 10) { "unknown".to_string() } else { t.choose(POOL).to_string() });
    }
    v
}

pub fn decode(t: &mut Tape) -> TagCase {
    let n = if t.chance(1, 40) { 40 + t.pick(200) } else { 1 + t.pick(6) };
    let mut rules = vec![];
    for _ in 0..n {
        let kind = match t.pick(4) {
            0 => Kind::Block,
            1 => Kind::Exception,
            2 => Kind::Important,
            _ => Kind::Csp,
        };
        rules.push(TRule { kind, tag: t.choose(POOL).to_string(), shape: t.pick(4) as u8 });
    }
    let m = 1 + t.pick(8);
    let mut ops = vec![];
    for _ in 0..m {
        ops.push(match t.pick(7) {
            0 | 1 => Op::Use(tagset(t)),
            2 | 3 => Op::Enable(tagset(t)),
            4 | 5 => Op::Disable(tagset(t)),
            _ => Op::Reload(tagset(t)),
        });
    }
    TagCase { rules, ops, optimize: t.chance(1, 2) }
}

pub fn check(ctx: &mut Ctx) {
    ctx.rule = "1-6 tagged rules, each of kind blocking / exception (with an untagged blocker behind it) / important (with an untagged exception it must beat) / csp, 4 pattern shapes, tags from a pool of 5, optimisation on/off; history of 1-8 use/enable/disable (duplicates, unknown tags, empty sets) and reload ops (bytes serialized by a sibling engine holding a different enabled set). After every op each rule's private probe request and tag_exists over the pool (+ \"\" and an unknown tag) are compared with a set model. Non-trivial = at least two set-changing ops and a rule whose activity flips.".into();
    ctx.assumptions = vec!["tag+redirect, tag+removeparam and tag+generichide are documented as unsupported and are not generated".into()];
    let n = ctx.tier.pick(120_000, 2_000_000);
    drive(ctx, "history", n, 200, &decode, &check_case);
}

pub fn replay(ctx: &mut Ctx, v: &Value) {
    replay_file::<TagCase>(ctx, v, &check_case);
}
