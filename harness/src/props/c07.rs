//! C07 — tagged rules are active exactly when their tag is enabled.

use crate::eng::*;
use crate::gen;
use crate::run::{drive, replay_file, Case, Ctx, Obs, Tape};
use adblock::Engine;
use serde::{Deserialize, Serialize};
use serde_json::Value;
use std::collections::BTreeSet;

// tag names are compared verbatim (case matters): "T1" and "t1" are different tags
const POOL: &[&str] = &["t1", "t2", "t3", "social", "x", "T1", "Social-Embeds"];

#[derive(Clone, Debug, Serialize, Deserialize, PartialEq)]
pub enum Kind {
    Block,
    Exception,
    Important,
    Csp,
}

#[derive(Clone, Debug, Serialize, Deserialize)]
pub struct TRule {
    pub kind: Kind,
    pub tag: String,
    /// 0 plain, 1 regex-ish (^/*), 2 full regex, 3 hostname anchored
    pub shape: u8,
}

#[derive(Clone, Debug, Serialize, Deserialize)]
pub enum Op {
    Use(Vec<String>),
    Enable(Vec<String>),
    Disable(Vec<String>),
    /// load bytes serialized by a sibling engine (same rules) whose enabled set is `other_tags`
    Reload(Vec<String>),
    /// a load that FAILS (truncated bytes of a sibling engine, or a bare header): the enabled set
    /// and everything else stays as it was
    ReloadBad(u8),
}

#[derive(Clone, Debug, Serialize, Deserialize)]
pub struct TagCase {
    pub rules: Vec<TRule>,
    pub ops: Vec<Op>,
    pub optimize: bool,
}

impl Case for TagCase {
    fn smaller(&self) -> Vec<Self> {
        let mut v = vec![];
        for i in 0..self.ops.len() {
            let mut c = self.clone();
            c.ops.remove(i);
            v.push(c);
        }
        for i in 0..self.rules.len() {
            let mut c = self.clone();
            c.rules.remove(i);
            v.push(c);
        }
        if self.optimize {
            let mut c = self.clone();
            c.optimize = false;
            v.push(c);
        }
        v
    }
}

fn pattern(i: usize, shape: u8) -> String {
    match shape {
        0 => format!("/uniq{}/x", i), // (a pattern that starts AND ends with '/' would be a regex)
        1 => format!("/uniq{}^*x", i),
        2 => format!("/\\/uniq{}\\/[a-z]/", i),
        _ => format!("||h{}.example.com/uniq{}/", i, i),
    }
}

fn probe_url(i: usize) -> String {
    format!("https://h{}.example.com/uniq{}/x", i, i)
}

fn lines(c: &TagCase) -> Vec<String> {
    let mut out = vec![];
    for (i, r) in c.rules.iter().enumerate() {
        let p = pattern(i, r.shape);
        match r.kind {
            Kind::Block => out.push(format!("{}$tag={}", p, r.tag)),
            Kind::Exception => {
                out.push(format!("/uniq{}/x", i)); // untagged blocker so the exception is observable
                out.push(format!("@@{}$tag={}", p, r.tag));
            }
            Kind::Important => {
                out.push(format!("@@/uniq{}/x", i)); // an exception that the important rule must beat
                out.push(format!("{}$important,tag={}", p, r.tag));
            }
            Kind::Csp => out.push(format!("{}$csp=script-src u{},tag={}", p, i, r.tag)),
        }
    }
    out
}

fn verify(e: &Engine, c: &TagCase, set: &BTreeSet<String>, step: &str, obs: &mut Obs) -> Result<(), String> {
    for t in POOL.iter().chain(["", "unknown"].iter()) {
        if e.tag_exists(t) != set.contains(*t) {
            return Err(format!("{}: tag_exists({:?}) = {} but model set = {:?}", step, t, e.tag_exists(t), set));
        }
    }
    for (i, r) in c.rules.iter().enumerate() {
        obs.inner_evals += 1;
        let active = set.contains(&r.tag);
        let url = probe_url(i);
        let req = adblock::request::Request::new(&url, "https://other.org/", "script").unwrap();
        let doc = adblock::request::Request::new(&url, "https://other.org/", "subdocument").unwrap();
        let b = e.check_network_request(&req);
        let ok = match r.kind {
            Kind::Block => b.matched == active,
            Kind::Exception => b.matched == !active && b.exception.is_some() == active,
            Kind::Important => b.matched == active && b.important == active,
            Kind::Csp => {
                let got = e.get_csp_directives(&doc);
                let want = if active { Some(format!("script-src u{}", i)) } else { None };
                got == want
            }
        };
        if !ok {
            return Err(format!(
                "{}: rule #{} {:?} (tag {:?}, enabled set {:?}) should be {} but probe {} gave matched={} important={} exception={:?} csp={:?}",
                step, i, r.kind, r.tag, set, if active { "active" } else { "inactive" }, url, b.matched, b.important, b.exception,
                e.get_csp_directives(&doc)
            ));
        }
    }
    Ok(())
}

pub fn check_case(c: &TagCase, obs: &mut Obs) -> Result<(), String> {
    let ls = lines(c);
    let tags: Vec<String> = c.rules.iter().map(|r| r.tag.clone()).collect();
    run_history(&ls, &c.ops, c.optimize, &tags, obs, &mut |e, set, step, obs| verify(e, c, set, step, obs))?;
    for r in &c.rules {
        obs.label(match r.kind {
            Kind::Block => "kind-block",
            Kind::Exception => "kind-exception",
            Kind::Important => "kind-important",
            Kind::Csp => "kind-csp",
        });
    }
    Ok(())
}

/// Applies the op history to an engine built from `ls`, calling `verify` initially and after every op
/// with the model's enabled set.
fn run_history(
    ls: &[String],
    ops: &[Op],
    optimize: bool,
    rule_tags: &[String],
    obs: &mut Obs,
    verify: &mut dyn FnMut(&Engine, &BTreeSet<String>, &str, &mut Obs) -> Result<(), String>,
) -> Result<(), String> {
    let res = gen::std_resources();
    let mut e = build_engine(ls, false, optimize, &res);
    let mut set: BTreeSet<String> = BTreeSet::new();
    verify(&e, &set, "initial", obs)?;
    let mut changes = 0;
    let mut flipped = false;
    for (k, op) in ops.iter().enumerate() {
        let before = set.clone();
        match op {
            Op::Use(ts) => {
                e.use_tags(&ts.iter().map(|s| s.as_str()).collect::<Vec<_>>());
                set = ts.iter().cloned().collect();
            }
            Op::Enable(ts) => {
                e.enable_tags(&ts.iter().map(|s| s.as_str()).collect::<Vec<_>>());
                set.extend(ts.iter().cloned());
            }
            Op::Disable(ts) => {
                e.disable_tags(&ts.iter().map(|s| s.as_str()).collect::<Vec<_>>());
                for t in ts {
                    set.remove(t);
                }
            }
            Op::Reload(other) => {
                let mut sib = build_engine(ls, false, optimize, &res);
                sib.use_tags(&other.iter().map(|s| s.as_str()).collect::<Vec<_>>());
                let bytes = sib.serialize_raw().map_err(|e| format!("serialize failed: {:?}", e))?;
                e.deserialize(&bytes).map_err(|e| format!("deserialize failed: {:?}", e))?;
                obs.label("reload");
                // the caller's enabled set is kept
            }
            Op::ReloadBad(k) => {
                let sib = build_engine(ls, false, optimize, &res);
                let bytes = sib.serialize_raw().map_err(|e| format!("serialize failed: {:?}", e))?;
                let bad: Vec<u8> = match k % 4 {
                    0 => bytes[..bytes.len() / 2].to_vec(),
                    1 => bytes[..5.min(bytes.len())].to_vec(),
                    2 => vec![],
                    _ => bytes[..bytes.len() - 1].to_vec(),
                };
                if e.deserialize(&bad).is_ok() {
                    obs.exclude("a truncated buffer that loads");
                    return Ok(());
                }
                obs.label("failed-reload");
            }
        }
        if before != set {
            changes += 1;
            if rule_tags.iter().any(|t| before.contains(t) != set.contains(t)) {
                flipped = true;
            }
        }
        verify(&e, &set, &format!("after op #{} {:?}", k, op), obs)?;
    }
    if changes >= 2 && flipped {
        obs.nontrivial = true;
    }
    Ok(())
}

// ---- shared-bucket histories: tagged rules that share tokens, so that which rules sit in one
// bucket (and get fused by the optimiser) depends on the enabled set -----------------------------

const TOKS: &[&str] = &["promo", "banner", "track", "adv"];

#[derive(Clone, Debug, Serialize, Deserialize)]
pub struct Group {
    pub kind: Kind,
    pub tag: String,
    pub size: usize,
    pub toks: (u8, u8),
    /// pattern contains `*` (compiled to a regex)
    pub regexy: bool,
    /// a second rule with the SAME pattern and options but this tag: the probe is then decided by
    /// two rules of one bucket, and it is active when either tag is enabled
    #[serde(default)]
    pub twin: Option<String>,
}

#[derive(Clone, Debug, Serialize, Deserialize)]
pub struct SharedCase {
    pub groups: Vec<Group>,
    pub ops: Vec<Op>,
    pub optimize: bool,
}

impl Case for SharedCase {
    fn smaller(&self) -> Vec<Self> {
        let mut v = vec![];
        for i in 0..self.ops.len() {
            let mut c = self.clone();
            c.ops.remove(i);
            v.push(c);
        }
        for i in 0..self.groups.len() {
            let mut c = self.clone();
            c.groups.remove(i);
            v.push(c);
            if self.groups[i].size > 1 {
                for s in [1, self.groups[i].size / 2, self.groups[i].size - 1] {
                    if s >= 1 && s < self.groups[i].size {
                        let mut c = self.clone();
                        c.groups[i].size = s;
                        v.push(c);
                    }
                }
            }
        }
        v
    }
}

/// (kind, tag, rule line(s) index, probe url) per expanded rule
fn shared_rules(c: &SharedCase) -> (Vec<String>, Vec<(Kind, Vec<String>, String)>) {
    let mut ls = vec![];
    let mut probes = vec![];
    let mut n = 0usize;
    for g in &c.groups {
        let (a, b) = (TOKS[g.toks.0 as usize % TOKS.len()], TOKS[g.toks.1 as usize % TOKS.len()]);
        for _ in 0..g.size {
            let letter = match g.kind {
                Kind::Block => 'b',
                Kind::Exception => 'e',
                _ => 'i',
            };
            // the trailing `<letter>NNN` is never a token (it may be a prefix), so the rule is
            // indexed under one of the two shared tokens
            let id = format!("{}{:04}", letter, n);
            let pat = if g.regexy { format!("/{}/{}/*{}", a, b, id) } else { format!("/{}/{}/{}", a, b, id) };
            let url = if g.regexy { format!("https://h.example.com/{}/{}/zz/{}", a, b, id) } else { format!("https://h.example.com/{}/{}/{}", a, b, id) };
            // tag "-" = an untagged rule (always active); tag "" = the legal empty spelling `tag=`
            let mut tags = vec![g.tag.clone()];
            if let Some(t2) = &g.twin {
                if *t2 != g.tag {
                    tags.push(t2.clone());
                }
            }
            match g.kind {
                Kind::Exception => ls.push(format!("/{}^", id)), // untagged blocker (own token) so the exception is observable
                Kind::Important => ls.push(format!("@@/{}^", id)),
                _ => {}
            }
            for tg in &tags {
                let topt = if tg == "-" { String::new() } else { format!("tag={}", tg) };
                let join = |pre: &str, o: &str| match (pre.is_empty(), o.is_empty()) {
                    (true, true) => String::new(),
                    (true, false) => format!("${}", o),
                    (false, true) => format!("${}", pre),
                    (false, false) => format!("${},{}", pre, o),
                };
                match g.kind {
                    Kind::Block => ls.push(format!("{}{}", pat, join("", &topt))),
                    Kind::Exception => ls.push(format!("@@{}{}", pat, join("", &topt))),
                    _ => ls.push(format!("{}{}", pat, join("important", &topt))),
                }
            }
            probes.push((g.kind.clone(), tags, url));
            n += 1;
        }
    }
    (ls, probes)
}

pub fn check_shared(c: &SharedCase, obs: &mut Obs) -> Result<(), String> {
    let (ls, probes) = shared_rules(c);
    let tags: Vec<String> = probes.iter().flat_map(|p| p.1.clone()).collect();
    if c.groups.iter().any(|g| g.twin.is_some()) {
        obs.label("twin-rules");
    }
    if c.groups.iter().any(|g| g.size > 64) {
        obs.label("group>64");
    }
    run_history(&ls, &c.ops, c.optimize, &tags, obs, &mut |e, set, step, obs| {
        for (i, (kind, tag, url)) in probes.iter().enumerate() {
            obs.inner_evals += 1;
            let active = tag.iter().any(|t| t == "-" || set.contains(t));
            let req = adblock::request::Request::new(url, "https://other.org/", "script").unwrap();
            let b = e.check_network_request(&req);
            let ok = match kind {
                Kind::Block => b.matched == active,
                Kind::Exception => b.matched == !active && b.exception.is_some() == active,
                _ => b.matched == active && b.important == active,
            };
            if !ok {
                return Err(format!(
                    "{}: rule #{} {:?} (tag {:?}, enabled set {:?}) should be {} but probe {} gave matched={} important={} exception={:?} filter={:?}",
                    step, i, kind, tag, set, if active { "active" } else { "inactive" }, url, b.matched, b.important, b.exception, b.filter
                ));
            }
        }
        Ok(())
    })
}

pub fn decode_shared(t: &mut Tape) -> SharedCase {
    let big = t.chance(1, 30);
    let ngroups = if big { 2 + t.pick(2) } else { 2 + t.pick(6) };
    // few distinct token pairs, so that groups meet in buckets
    let ntok = 2 + t.pick(3);
    let big_toks = (t.pick(ntok) as u8, t.pick(ntok) as u8);
    let big_kind = match t.pick(3) {
        0 => Kind::Block,
        1 => Kind::Exception,
        _ => Kind::Important,
    };
    let mut groups = vec![];
    for _ in 0..ngroups {
        let kind = if big && t.chance(2, 3) {
            big_kind.clone()
        } else {
            match t.pick(3) {
                0 => Kind::Block,
                1 => Kind::Exception,
                _ => Kind::Important,
            }
        };
        let size = if big { [2usize, 63, 64, 65, 65, 66, 129][t.pick(7)] } else { 1 + t.pick(3) };
        let toks = if big { big_toks } else { (t.pick(ntok) as u8, t.pick(ntok) as u8) };
        let twin = if !big && t.chance(1, 3) { Some(t.choose(&POOL[..7]).to_string()) } else { None };
        // 1 group in 6 is untagged ("-"), 1 in 6 carries the empty tag
        let tag = match t.pick(6) {
            0 => "-".to_string(),
            1 => String::new(),
            _ => t.choose(&POOL[..6]).to_string(),
        };
        groups.push(Group { kind, tag, size, toks, regexy: if big { false } else { t.chance(1, 2) }, twin });
    }
    let m = 1 + t.pick(8);
    let mut ops = vec![];
    for _ in 0..m {
        ops.push(match t.pick(7) {
            0 | 1 => Op::Use(tagset(t)),
            2 | 3 => Op::Enable(tagset(t)),
            4 | 5 => Op::Disable(tagset(t)),
            _ => if t.chance(1, 3) { Op::ReloadBad(t.pick(4) as u8) } else { Op::Reload(tagset(t)) },
        });
    }
    SharedCase { groups, ops, optimize: t.chance(3, 4) }
}

fn tagset(t: &mut Tape) -> Vec<String> {
    let n = t.pick(4);
    let mut v = vec![];
    for _ in 0..n {
        v.push(match t.pick(12) {
            0 => "unknown".to_string(),
            1 => String::new(), // the empty tag can be enabled like any other
            _ => t.choose(POOL).to_string(),
        });
    }
    v
}

pub fn decode(t: &mut Tape) -> TagCase {
    let n = if t.chance(1, 40) { 40 + t.pick(200) } else { 1 + t.pick(6) };
    let mut rules = vec![];
    for _ in 0..n {
        let kind = match t.pick(4) {
            0 => Kind::Block,
            1 => Kind::Exception,
            2 => Kind::Important,
            _ => Kind::Csp,
        };
        rules.push(TRule { kind, tag: t.choose(POOL).to_string(), shape: t.pick(4) as u8 });
    }
    let m = 1 + t.pick(8);
    let mut ops = vec![];
    for _ in 0..m {
        ops.push(match t.pick(7) {
            0 | 1 => Op::Use(tagset(t)),
            2 | 3 => Op::Enable(tagset(t)),
            4 | 5 => Op::Disable(tagset(t)),
            _ => if t.chance(1, 3) { Op::ReloadBad(t.pick(4) as u8) } else { Op::Reload(tagset(t)) },
        });
    }
    TagCase { rules, ops, optimize: t.chance(1, 2) }
}

pub fn check(ctx: &mut Ctx) {
    ctx.rule = "1-6 tagged rules, each of kind blocking / exception (with an untagged blocker behind it) / important (with an untagged exception it must beat) / csp, 4 pattern shapes, tags from a pool of 7 (two of them differing from others only in letter case), optimisation on/off; history of 1-8 use/enable/disable (duplicates, unknown tags, empty sets) and reload ops (bytes serialized by a sibling engine holding a different enabled set; 1 in 3 a FAILING load of truncated bytes, after which nothing may have changed). After every op each rule's private probe request and tag_exists over the pool (+ \"\" and an unknown tag) are compared with a set model. shared: 2-7 groups of tagged blocking / exception / important rules whose patterns share tokens from a pool of 2-4 (plain or '*' patterns, the per-rule suffix is never a token; 1 group in 3 doubles every rule with a same-pattern twin under another tag, so a probe is active when either tag is enabled; 1 group in 6 is untagged and 1 in 6 carries the empty tag `tag=`, which op sets may enable), so bucket membership and optimiser fusion depend on the enabled set; 1 in 30 cases uses 2-3 groups of 2/63/64/65/66/129 rules in one bucket; same histories and set model. Non-trivial = at least two set-changing ops and a rule whose activity flips.".into();
    ctx.assumptions = vec!["tag+redirect, tag+removeparam and tag+generichide are documented as unsupported and are not generated".into()];
    let n = ctx.tier.pick(120_000, 2_000_000);
    drive(ctx, "history", n, 200, &decode, &check_case);
    let n = ctx.tier.pick(60_000, 1_000_000);
    drive(ctx, "shared", n, 200, &decode_shared, &check_shared);
}

pub fn replay(ctx: &mut Ctx, v: &Value) {
    if v.get("case").map_or(false, |c| c.get("groups").is_some()) {
        return replay_file::<SharedCase>(ctx, v, &check_shared);
    }
    replay_file::<TagCase>(ctx, v, &check_case);
}
