//! C14 — removeparam rewrites remove exactly the named parameters and nothing else.

use crate::eng::*;
use crate::gen::{self, NetCase, ReqSpec};
use crate::run::{drive, replay_file, Ctx, Obs, Tape};
use adblock::filters::network::NetworkFilterMaskHelper;
use serde_json::Value;
use std::collections::HashSet;

pub fn check_case(c: &NetCase, obs: &mut Obs) -> Result<(), String> {
    let res = gen::std_resources();
    let engine = build_engine(&c.rules, false, false, &res);
    let parsed = parse_network(&c.rules);
    let active = active_rules(&parsed);
    let tags = HashSet::new();
    for r in &c.reqs {
        // the engine indexes at most 127 URL tokens (documented limit; C01 states it): a rule
        // reached through a token beyond that is out of the compared domain
        if super::c01::approx_tokens(&r.url) >= 120 {
            obs.exclude("url-with-120+-tokens");
            continue;
        }
        let Some(req) = mk_request(r) else { continue };
        obs.inner_evals += 1;
        let hits = hits_of(&active, &req);
        let spec = combine(&hits, &tags, &req, &r.url, &res);
        let got = engine.check_network_request(&req);
        let names: Vec<&str> = hits.iter().filter(|p| p.f.is_removeparam()).filter_map(|p| p.f.modifier_option.as_deref()).collect();
        // request types a removeparam rule applies to, read from its text (wherever the type
        // options stand): the positive type options, or document / subdocument / xhr when there
        // is none. A rule must not take part in the rewrite of a request of any other type.
        let scheme = r.url.split(':').next().unwrap_or("").to_ascii_lowercase();
        for p in hits.iter().filter(|p| p.f.is_removeparam()) {
            let opts = p.line.trim().rsplit_once('$').map(|x| x.1).unwrap_or("");
            // the parameter name is the text after `removeparam=` as written
            let written: Vec<&str> = opts.split(',').filter_map(|o| o.strip_prefix("removeparam=")).collect();
            if written.len() == 1 && p.f.modifier_option.as_deref() != Some(written[0]) {
                return Err(format!("rule {:?}: parameter name as written {:?}, parsed as {:?}", p.line, written[0], p.f.modifier_option));
            }
            let negated: Vec<&str> = opts.split(',').filter(|o| o.starts_with('~')).filter_map(|o| crate::model::opts::type_option_class(&o[1..])).collect();
            let mut allowed: Vec<&str> = opts.split(',').filter_map(crate::model::opts::type_option_class).collect();
            if allowed.is_empty() {
                allowed = vec!["document", "subdocument", "xmlhttprequest"];
            }
            // negated types only take away (for removeparam they do not imply "all other types")
            allowed.retain(|a| !negated.contains(a));
            if let Some(t) = crate::model::opts::request_type_class(&r.rtype, &scheme) {
                if !allowed.contains(&t) {
                    return Err(format!("request {:?} (type class {:?}): removeparam rule {:?} is applied although its text restricts it to {:?}", r, t, p.line, allowed));
                }
            }
        }
        if let Some(w) = &spec.rewritten {
            obs.label("rewrite-expected");
            // something preserved?
            if w.contains('?') {
                obs.nontrivial = true;
                obs.label("rewrite-keeps-some-params");
            }
        }
        if !names.is_empty() && spec.rewritten.is_none() {
            obs.label("matching-rule-but-no-rewrite");
            // near miss: a key that only differs by case / prefix / empty value
            obs.nontrivial = true;
        }
        if got.important {
            obs.label("important-blocks");
        }
        if got.rewritten_url != spec.rewritten {
            return Err(format!("request {:?}: rewritten_url {:?}, expected {:?} (matching removeparam names {:?})", r, got.rewritten_url, spec.rewritten, names));
        }
        // independent byte-level sanity: the rewrite only ever deletes whole `k=v` pairs
        if let Some(w) = &got.rewritten_url {
            let hash = r.url.find('#').unwrap_or(r.url.len());
            if w.len() >= r.url.len() || !w.ends_with(&r.url[hash..]) {
                return Err(format!("request {:?}: rewritten_url {:?} does not preserve the fragment / is not shorter", r, w));
            }
        }
    }
    Ok(())
}

fn qs(t: &mut Tape) -> String {
    let keys = ["utm", "utm_source", "id", "ref", "fbclid", "UTM", "utm2", "xutm", "", "a", "ü", "q%20"];
    let vals = ["1", "", "x=y", "a%26b", "Utm", "ü", "1&", "v"];
    // (up to ~50 parameters keep the URL below the engine's 127-token limit)
    let n = if t.chance(1, 30) { 10 + t.pick(42) } else { t.pick(6) };
    let mut parts = vec![];
    for _ in 0..n {
        let k = t.choose(&keys);
        parts.push(match t.pick(6) {
            0 => k.to_string(),
            1 => format!("{}=", k),
            _ => format!("{}={}", k, t.choose(&vals)),
        });
    }
    if t.chance(1, 20) {
        // one long opaque value (session blobs, base64 payloads): the URL exceeds 2 KiB while its
        // token count stays small
        let at = t.pick(parts.len() + 1);
        parts.insert(at, format!("{}={}", t.choose(&["blob", "id", "state"]), t.choose(&["z", "Zq", "9"]).repeat(700 + t.pick(2000))));
    }
    let mut s = parts.join("&");
    if t.chance(1, 8) {
        s = format!("&{}", s);
    }
    if t.chance(1, 8) {
        s.push('&');
    }
    if t.chance(1, 8) {
        s = s.replacen('&', "&&", 1);
    }
    s
}

pub fn decode(t: &mut Tape) -> NetCase {
    let hosts = ["x.com", "shop.x.com", "y.org"];
    let params = ["utm", "utm_source", "id", "ref", "fbclid", "UTM", "a", "q"];
    let mut rules = vec![];
    let nrules = if t.chance(1, 30) { 10 + t.pick(60) } else { 1 + t.pick(5) };
    for _ in 0..nrules {
        let p = t.choose(&["*", "||x.com^", "||y.org/p", "/p?", "", "|https://", "||shop.x.com^", "?utm"]);
        let mut opts = vec![format!("removeparam={}", t.choose(&params))];
        if t.chance(1, 4) {
            opts.push(t.choose(&["document", "xhr", "script", "~xhr", "domain=site.org", "3p", "1p", "important", "image", "script,~image", "~image,script", "xhr,~script", "~document"]).to_string());
        }
        // option order carries no meaning
        if opts.len() > 1 && t.chance(1, 2) {
            opts.rotate_left(1);
        }
        rules.push(format!("{}${}", p, opts.join(",")));
    }
    for _ in 0..t.pick(3) {
        rules.push(t.choose(&["||x.com^$important", "||y.org^", "@@||y.org^", "/p?$important,script", "||x.com^$removeparam", "@@||x.com^$removeparam=utm", "*$removeparam=/re/"]).to_string());
    }
    let mut reqs = vec![];
    for _ in 0..(1 + t.pick(5)) {
        let mut u = format!("{}://{}{}", t.choose(&["https", "http", "https", "wss"]), t.choose(&hosts), t.choose(&["/p", "/", "", "/a/b.html", "/p;x"]));
        if t.chance(1, 8) {
            // spellings that URL normalisation would change: the rewrite must keep them as given
            u = format!("{}://{}{}", t.choose(&["HTTPS", "Http", "https"]), t.choose(&["X.com", "bücher.example", "shop.X.COM", "y.org:443", "user@y.org", "x.com."]), t.choose(&["/p", "/", "/A/B.html", "/p%7Ex", "/ü"]));
        }
        if t.chance(4, 5) {
            u.push('?');
            u.push_str(&qs(t));
        }
        if t.chance(1, 3) {
            u.push('#');
            u.push_str(t.choose(&["frag", "", "a?utm=1", "x#y", "?id=2&utm=3"]));
        }
        reqs.push(ReqSpec { url: u, source: t.choose(&["https://site.org/", "https://x.com/", ""]).to_string(), rtype: t.choose(&["document", "xhr", "subdocument", "script", "image", "main_frame", "fetch"]).to_string() });
    }
    NetCase { rules, tags: vec![], reqs }
}

pub fn check(ctx: &mut Ctx) {
    ctx.rule = "1-5 removeparam rules (8 parameter names incl. case variants, 8 patterns, extra options such as types/domain/party/important) + blocking/important/exception companions and malformed removeparam spellings; 1-5 raw URLs (1 in 8 spelled in a way URL normalisation would change: upper-case scheme or host, IDN host, default port, userinfo, trailing dot, percent escapes) whose query mixes empty keys/values, bare keys, '=' inside values, '&&', leading/trailing '&', percent escapes, non-ASCII, 1 in 20 with one opaque value of 0.7-5 KiB, and whose fragment may contain '?', '#' and parameters. Oracle: query surgery on the raw input string (query = first '?' before the first '#'; remove pairs k=v with non-empty v and k equal to a matching rule's name; '?' dropped only when nothing remains; None when nothing removed or an important rule blocks); which rules match comes from NetworkFilter::matches, except that the request types a removeparam rule may apply to are re-read from its text (positive type options wherever they stand; document/subdocument/xhr by default). Non-trivial = rewrite that keeps some parameters, or matching rule that must not rewrite (near-miss key / empty value).".into();
    ctx.assumptions = vec!["the rewritten URL is compared byte for byte with the model's".into()];
    let n = ctx.tier.pick(1_500_000, 10_000_000);
    drive(ctx, "removeparam", n, 300, &decode, &check_case);
}

pub fn replay(ctx: &mut Ctx, v: &Value) {
    replay_file::<NetCase>(ctx, v, &check_case);
}
