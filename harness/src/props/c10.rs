//! C10 — loading corrupt or hostile serialized data fails cleanly and atomically.

use crate::eng::*;
use crate::gen::{self, FullCase, NetCfg, ReqSpec};
use crate::run::{guard, replay_file, run_child, run_isolated, Case, Ctx, Failure, Obs, Tape, Tier};
use crate::track_alloc;
use adblock::Engine;
use serde::{Deserialize, Serialize};
use serde_json::{json, Value};

const MAGIC: [u8; 4] = [0xd1, 0xd9, 0x3a, 0xaf];
const GZ: [u8; 10] = [31, 139, 8, 0, 0, 0, 0, 0, 0, 255];

#[derive(Clone, Debug, Serialize, Deserialize)]
pub struct BufCase {
    /// rules of the engine that receives the hostile input (its state must survive an error)
    pub home: Vec<String>,
    pub home_tags: Vec<String>,
    /// rules of the engine whose valid serialization is corrupted
    pub victim: Vec<String>,
    pub victim_debug: bool,
    pub victim_optimize: bool,
    /// 0 = light enumeration, 1 = full byte substitutions as well
    pub mode: u8,
    pub rnd: u64,
    /// when set: test only this input (hex) instead of enumerating
    pub only: Option<String>,
    /// permission bits granted to the home engine's list (it then also holds a scriptlet rule whose
    /// resource needs permission 1: state that is NOT in the serialized format)
    #[serde(default)]
    pub home_perm: u8,
    /// when set (with `only` unset): test only the large inputs
    #[serde(default)]
    pub only_large: bool,
}

impl Case for BufCase {
    fn smaller(&self) -> Vec<Self> {
        let mut v = vec![];
        if self.only.is_some() {
            for i in 0..self.home.len() {
                let mut c = self.clone();
                c.home.remove(i);
                v.push(c);
            }
            if !self.victim.is_empty() {
                let mut c = self.clone();
                c.victim.clear();
                v.push(c);
            }
            if !self.home_tags.is_empty() {
                let mut c = self.clone();
                c.home_tags.clear();
                v.push(c);
            }
        }
        v
    }
}

fn hex(b: &[u8]) -> String {
    b.iter().map(|x| format!("{:02x}", x)).collect()
}
fn unhex(s: &str) -> Vec<u8> {
    (0..s.len() / 2).filter_map(|i| u8::from_str_radix(&s[2 * i..2 * i + 2], 16).ok()).collect()
}

fn probes(c: &BufCase) -> FullCase {
    let mut reqs = vec![];
    let mut pages = vec![];
    for r in c.home.iter().chain(c.victim.iter()) {
        // a URL that contains the rule's pattern text
        let pat = r.trim_start_matches("@@").trim_start_matches("||").trim_start_matches('|');
        let pat = pat.split('$').next().unwrap_or("");
        let pat: String = pat.chars().map(|ch| if ch == '^' { '/' } else if ch == '*' { 'x' } else { ch }).collect();
        if !pat.contains("##") && !pat.contains("#@#") && reqs.len() < 12 {
            let u = if pat.contains('.') && !pat.starts_with('/') { format!("https://{}", pat) } else { format!("https://example.com/{}", pat) };
            for ty in ["script", "document"] {
                reqs.push(ReqSpec { url: u.clone(), source: "https://site.org/".into(), rtype: ty.into() });
            }
        }
        if let Some(i) = r.find('#') {
            if i > 0 {
                let h = r[..i].split(',').next().unwrap_or("").trim_start_matches('~').replace(".*", ".com");
                if h.contains('.') && pages.len() < 4 {
                    pages.push(format!("https://{}/", h));
                }
            }
        }
    }
    for ty in ["script", "image", "stylesheet", "xhr", "document", "subdocument", "font", "media", "object", "ping", "websocket", "other", "csp_report"] {
        reqs.push(ReqSpec { url: "https://ads.example.com/banner/ad.js?utm=1".into(), source: "https://example.org/".into(), rtype: ty.into() });
    }
    reqs.push(ReqSpec { url: "wss://ads.example.com/x".into(), source: "".into(), rtype: "websocket".into() });
    pages.push("https://example.com/".into());
    pages.push("https://sub.ads.example.co.uk/".into());
    FullCase {
        rules: vec![],
        tags: vec![],
        reqs,
        pages,
        classes: gen::CLASSES.iter().map(|s| s.to_string()).collect(),
        ids: gen::IDS.iter().map(|s| s.to_string()).collect(),
        debug: false,
        optimize: false,
    }
}

#[derive(PartialEq, Debug)]
struct Snapshot {
    bytes: Vec<u8>,
    answers: Vec<String>,
    tags: Vec<bool>,
}

fn snapshot(e: &Engine, p: &FullCase) -> Snapshot {
    Snapshot {
        bytes: e.serialize_raw().unwrap_or_default(),
        answers: engine_answers(e, p, None),
        tags: gen::TAGS.iter().map(|t| e.tag_exists(t)).collect(),
    }
}

struct Xs(u64);
impl Xs {
    fn next(&mut self) -> u64 {
        let mut x = self.0;
        x ^= x << 13;
        x ^= x >> 7;
        x ^= x << 17;
        self.0 = x;
        x
    }
    fn below(&mut self, n: usize) -> usize {
        if n == 0 { 0 } else { (self.next() % n as u64) as usize }
    }
}

const SUB_VALUES: &[u8] = &[0x00, 0x01, 0x7f, 0x80, 0x8f, 0x90, 0x9f, 0xa0, 0xbf, 0xc0, 0xc1, 0xc2, 0xc3, 0xc4, 0xc6, 0xc9, 0xca, 0xcb, 0xcf, 0xd3, 0xd9, 0xdb, 0xdc, 0xdd, 0xde, 0xdf, 0xe0, 0xff];

fn inputs(c: &BufCase, vb: &[u8], hb: &[u8], f: &mut dyn FnMut(&'static str, Vec<u8>) -> Result<(), String>) -> Result<(), String> {
    if let Some(h) = &c.only {
        return f("only", unhex(h));
    }
    // inputs of 1 MiB and more that must be rejected (before anything was loaded successfully)
    {
        let mut r = Xs(c.rnd | 3);
        let big = (1usize << 20) + 1 + r.below(4096);
        let mut m = MAGIC.to_vec();
        m.extend_from_slice(&[0, 0xdc, 0x00, 0x13]);
        m.resize(big, 0xc1);
        f("large", m)?;
        f("large", vec![0u8; big])?;
        let mut m = vb.to_vec();
        m.pop();
        while m.len() < big {
            let l = m.len();
            m.extend_from_within(0..l.min(big - l));
        }
        f("large", m)?;
        let mut m = MAGIC.to_vec();
        m.push(7);
        m.resize(2 * big, 0xff);
        f("large", m)?;
    }
    if c.only_large {
        return Ok(());
    }
    // header variants
    f("header", vec![])?;
    for n in 1..=4 {
        f("header", MAGIC[..n].to_vec())?;
    }
    for v in 0..=255u8 {
        let mut m = MAGIC.to_vec();
        m.push(v);
        f("header", m.clone())?;
        if v != 0 {
            m.extend_from_slice(&vb[5.min(vb.len())..]);
            f("header", m)?;
        }
    }
    f("header", GZ.to_vec())?;
    let mut g = GZ.to_vec();
    g.extend_from_slice(vb);
    f("header", g)?;
    f("header", GZ[..5].to_vec())?;
    // the historic 2.5 GB allocation request
    let mut m = MAGIC.to_vec();
    m.extend_from_slice(&[0, 0xc6, 0x95, 0x91, 0x5b, 0x31]);
    f("declared-huge-length", m)?;
    for marker in [0xc6u8, 0xdb, 0xdd, 0xdf, 0xc9] {
        let mut m = MAGIC.to_vec();
        m.extend_from_slice(&[0, marker, 0xff, 0xff, 0xff, 0xf0]);
        f("declared-huge-length", m)?;
        // inside a valid buffer: after the first array header
        if vb.len() > 6 {
            let mut m = vb[..6].to_vec();
            m.extend_from_slice(&[marker, 0x7f, 0xff, 0xff, 0xff]);
            m.extend_from_slice(&vb[6..]);
            f("declared-huge-length", m)?;
        }
    }
    // every prefix
    for n in 0..vb.len() {
        f("prefix", vb[..n].to_vec())?;
    }
    // every single-bit flip
    for i in 0..vb.len() {
        for b in 0..8 {
            let mut m = vb.to_vec();
            m[i] ^= 1 << b;
            f("bitflip", m)?;
        }
    }
    // byte substitutions at every offset
    for i in 5.min(vb.len())..vb.len() {
        if c.mode == 1 {
            for v in 0..=255u8 {
                if v != vb[i] {
                    let mut m = vb.to_vec();
                    m[i] = v;
                    f("bytesub", m)?;
                }
            }
        } else {
            for &v in SUB_VALUES {
                if v != vb[i] {
                    let mut m = vb.to_vec();
                    m[i] = v;
                    f("bytesub", m)?;
                }
            }
        }
    }
    // random multi-byte corruptions, insertions, deletions, splices, arbitrary strings
    let mut r = Xs(c.rnd | 1);
    let n_rand = if c.mode == 1 { 4000 } else { 600 };
    for _ in 0..n_rand {
        let mut m = vb.to_vec();
        match r.below(6) {
            0 => {
                for _ in 0..(2 + r.below(7)) {
                    if !m.is_empty() {
                        let i = r.below(m.len());
                        m[i] = r.next() as u8;
                    }
                }
            }
            1 => {
                if !m.is_empty() {
                    let i = r.below(m.len());
                    let k = 1 + r.below(8);
                    for _ in 0..k {
                        m.insert(i, r.next() as u8);
                    }
                }
            }
            2 => {
                if m.len() > 8 {
                    let i = 5 + r.below(m.len() - 5);
                    let k = (1 + r.below(16)).min(m.len() - i);
                    m.drain(i..i + k);
                }
            }
            3 => {
                // splice victim head with home tail
                let i = r.below(m.len() + 1);
                let j = r.below(hb.len() + 1);
                m.truncate(i);
                m.extend_from_slice(&hb[j..]);
            }
            4 => {
                // duplicate a chunk
                if m.len() > 10 {
                    let i = 5 + r.below(m.len() - 5);
                    let k = (1 + r.below(32)).min(m.len() - i);
                    let chunk = m[i..i + k].to_vec();
                    let at = 5 + r.below(m.len() - 5);
                    for (o, b) in chunk.into_iter().enumerate() {
                        m.insert(at + o, b);
                    }
                }
            }
            _ => {
                let len = r.below(64);
                m = MAGIC.to_vec();
                m.push(0);
                for _ in 0..len {
                    m.push(r.next() as u8);
                }
            }
        }
        f("random", m)?;
    }
    Ok(())
}

pub fn check_buf(c: &BufCase, obs: &mut Obs) -> Result<(), String> {
    let res = gen::scriptlet_resources();
    let p = probes(c);
    let mut home_rules = c.home.clone();
    if c.home_perm != 0 {
        home_rules.push("example.com##+js(perm)".to_string());
    }
    let mut e0 = build_engine_opts(&home_rules, false, false, &res, adblock::lists::ParseOptions { permissions: adblock::resources::PermissionMask::from_bits(c.home_perm), ..Default::default() });
    e0.use_tags(&c.home_tags.iter().map(|s| s.as_str()).collect::<Vec<_>>());
    let snap0 = snapshot(&e0, &p);
    let hb = snap0.bytes.clone();
    // what the engine looks like after re-loading its own bytes: identical, except for state the
    // format does not carry (open finding C08-scriptlet-permission-not-serialized)
    let snap_reloaded = {
        let mut e = build_engine_opts(&home_rules, false, false, &res, adblock::lists::ParseOptions { permissions: adblock::resources::PermissionMask::from_bits(c.home_perm), ..Default::default() });
        e.use_tags(&c.home_tags.iter().map(|s| s.as_str()).collect::<Vec<_>>());
        let _ = e.deserialize(&hb);
        snapshot(&e, &p)
    };
    if c.home_perm == 0 && snap_reloaded != snap0 {
        return Err("re-loading the engine's own bytes changes its answers (no permissions involved)".into());
    }
    let mut current = 0u8; // 0: initial state, 1: reloaded-from-own-bytes state
    let vb = build_engine(&c.victim, c.victim_debug, c.victim_optimize, &res).serialize_raw().map_err(|x| format!("{:?}", x))?;
    let trace = std::env::var("VH_TRACE").is_ok();
    let mut n_ok = 0u64;
    let mut n_err_deep = 0u64;
    let mut n_hdr = 0u64;
    let mut n_all = 0u64;
    let mut fresh_ok: Vec<u64> = vec![];
    let mut sample: Option<Value> = None;
    let case_json = |m: &[u8]| {
        let mut cc = c.clone();
        cc.only = Some(hex(m));
        serde_json::to_string(&cc).unwrap_or_default()
    };
    let result = inputs(c, &vb, &hb, &mut |kind, m| {
        if trace {
            println!("M {}", hex(&m));
        }
        n_all += 1;
        track_alloc::reset();
        let r = guard(|| e0.deserialize(&m));
        let big = track_alloc::max_big();
        let limit = (64usize << 20) + 64 * m.len();
        let fail = |msg: String| Err(format!("REPLAY_CASE:{}\n[{}] {} (input {} bytes: {})", case_json(&m), kind, msg, m.len(), hex(&m[..m.len().min(48)])));
        let r = match r {
            Err(pm) => return fail(format!("deserialize panicked: {}", pm)),
            Ok(r) => r,
        };
        if big > limit {
            return fail(format!("deserialize requested a single allocation of {} bytes for a {}-byte input", big, m.len()));
        }
        match r {
            Err(e) => {
                let deep = format!("{:?}", e).starts_with("RmpSerdeError");
                if deep {
                    n_err_deep += 1;
                    fresh_ok.push(seahash::hash(&m));
                } else {
                    n_hdr += 1;
                }
                // atomic: the engine behaves exactly as before
                let s = snapshot(&e0, &p);
                let before = if current == 0 { &snap0 } else { &snap_reloaded };
                if s != *before {
                    let what = if s.bytes != before.bytes { "serialized state" } else if s.tags != before.tags { "enabled tags" } else { "query answers" };
                    return fail(format!("deserialize returned Err({:?}) but the engine changed ({})", e, what));
                }
            }
            Ok(()) => {
                if m != vb {
                    n_ok += 1;
                    fresh_ok.push(seahash::hash(&m));
                    if sample.is_none() && kind != "only" {
                        sample = Some(json!({"kind": kind, "len": m.len(), "decoded": "ok", "input_head": hex(&m[..m.len().min(40)])}));
                    }
                }
                // the loaded engine answers queries and re-serializes without panicking
                if let Err(pm) = guard(|| {
                    let _ = engine_answers(&e0, &p, None);
                    let _ = e0.serialize_raw();
                    for t in gen::TAGS {
                        let _ = e0.tag_exists(t);
                    }
                }) {
                    return fail(format!("input decoded successfully but the engine then panicked: {}", pm));
                }
                // caller's tags are kept
                let tags_now: Vec<bool> = gen::TAGS.iter().map(|t| e0.tag_exists(t)).collect();
                if tags_now != snap0.tags {
                    return fail("successful load changed the caller's enabled tags".into());
                }
                // restore the home state through a valid load and make sure it is the same again
                match guard(|| e0.deserialize(&hb)) {
                    Ok(Ok(())) => {}
                    other => return fail(format!("re-loading the engine's own valid bytes after a hostile load failed: {:?}", other.map(|r| r.map_err(|e| format!("{:?}", e))))),
                }
                let s = snapshot(&e0, &p);
                if s != snap_reloaded {
                    return fail("after re-loading its own valid bytes the engine differs from a fresh engine that did the same".into());
                }
                current = 1;
            }
        }
        Ok(())
    });
    obs.inner_evals += n_all;
    obs.inner_labels.push(("inputs", n_all));
    obs.inner_labels.push(("corrupt-but-decodes", n_ok));
    obs.inner_labels.push(("rejected-by-msgpack-layer", n_err_deep));
    obs.inner_labels.push(("rejected-by-header", n_hdr));
    obs.inner_nontrivial = fresh_ok;
    obs.sample = sample;
    if n_ok + n_err_deep > 0 {
        obs.nontrivial = true;
    }
    result
}

pub fn decode(t: &mut Tape, tier: Tier) -> BufCase {
    let cfg = NetCfg { max_rules: 10, max_reqs: 1, ..Default::default() };
    let share = t.pick(6);
    let mut v = gen::full_case(t, &cfg, share);
    if t.chance(1, 8) {
        v.rules.clear();
    }
    // the enumeration is per byte: keep victim buffers small (no giant lines, at most 12 rules)
    v.rules.retain(|r| r.len() < 160);
    if t.chance(1, 2) {
        // patterns that begin or end with a multi-byte character (only hostnames are punycoded):
        // flipped flag bits make the loader's consumers slice such text at fixed offsets
        for _ in 0..(1 + t.pick(2)) {
            let r = t.choose(&["/banner/ñ", "ñ/banner/", "||ads.example.com/é", "é*banner^ü", "/ad/日本$script", "@@ü/banner/ü", "||x.com^*ñ|", "|https://example.com/banner/é"]).to_string();
            v.rules.insert(0, r);
        }
    }
    v.rules.truncate(12);
    let h = gen::full_case(t, &NetCfg { max_rules: 6, max_reqs: 1, ..Default::default() }, 3);
    let mut home = h.rules;
    home.retain(|r| r.len() < 160);
    home.truncate(8);
    let mode = match tier {
        Tier::Quick => 0,
        Tier::Thorough => if t.chance(1, 4) { 1 } else { 0 },
    };
    BufCase { home, home_tags: h.tags, victim: v.rules, victim_debug: v.debug, victim_optimize: v.optimize, mode, rnd: t.u64(), only: None, home_perm: if t.chance(1, 2) { [1u8, 3, 0xff][t.pick(3)] } else { 0 }, only_large: false }
}

pub fn worker(args: &[String]) -> i32 {
    // shard C10 <sub> <seed> <shard> <cases> <tier>   |   one C10 <sub>
    match args.first().map(|s| s.as_str()) {
        Some("shard") => {
            let seed: u64 = args[3].parse().unwrap_or(0);
            let shard: u64 = args[4].parse().unwrap_or(0);
            let cases: u32 = args[5].parse().unwrap_or(1);
            let tier = if args[6] == "thorough" { Tier::Thorough } else { Tier::Quick };
            crate::run::worker_shard::<BufCase>("buf", seed, shard, cases, 500, &move |t| decode(t, tier), &check_buf)
        }
        Some("one") => crate::run::worker_one::<BufCase>("buf", &check_buf),
        Some("corpus") => {
            // vh worker corpus <dir>: a few valid buffers as libFuzzer seeds
            let dir = std::path::PathBuf::from(&args[1]);
            let _ = std::fs::create_dir_all(&dir);
            let res = gen::scriptlet_resources();
            let lists: Vec<Vec<&str>> = vec![
                vec![],
                vec!["||example.com^"],
                vec!["/ads/*^x$script,domain=a.com|~b.a.com", "@@||ok.com^$generichide", "a.com##.ad", "a.com#@#.ad"],
                vec!["/re[a-z]+/$match-case,tag=t", "||x.com^$redirect=noop.js:5", "||x.com^$csp=script-src 'none'", "x.*##+js(set, a, b)", "x.com##.a:style(color: red)", "##.generic", "###id > .x"],
            ];
            for (i, l) in lists.iter().enumerate() {
                for (dbg, opt) in [(false, false), (true, true)] {
                    let rules: Vec<String> = l.iter().map(|s| s.to_string()).collect();
                    let b = build_engine(&rules, dbg, opt, &res).serialize_raw().unwrap_or_default();
                    let _ = std::fs::write(dir.join(format!("valid-{}-{}{}", i, dbg as u8, opt as u8)), b);
                }
            }
            0
        }
        _ => 2,
    }
}

fn locate(case_json: &str) -> Option<Failure> {
    // re-run the in-flight buffer in a fresh child that announces every input
    let args: Vec<String> = vec!["worker".into(), "one".into(), "C10".into(), "buf".into()];
    let out = run_child(&args, Some(case_json), &[("VH_TRACE", "1".into())]);
    if out.lines.iter().any(|l| l == "OK") {
        return None;
    }
    if let Some(f) = out.lines.iter().find_map(|l| l.strip_prefix("F ")) {
        return serde_json::from_str::<Failure>(f).ok();
    }
    let last = out.lines.iter().rev().find_map(|l| l.strip_prefix("M "))?;
    let mut c: BufCase = serde_json::from_str(case_json).ok()?;
    c.only = Some(last.to_string());
    let cj = serde_json::to_string(&c).ok()?;
    let out2 = run_child(&args, Some(&cj), &[]);
    let died = !out2.lines.iter().any(|l| l == "OK" || l.starts_with("F "));
    Some(Failure {
        check: "buf".into(),
        case: serde_json::to_value(&c).ok()?,
        message: format!(
            "the process was terminated ({:?}) while loading this {}-byte input{} (abort / stack overflow / refused allocation >= 1 GiB)",
            out.status,
            last.len() / 2,
            if died { "; reproduced in a fresh process on this input alone" } else { "; NOT reproduced on the input alone, only inside the enumeration" }
        ),
    })
}

pub fn check(ctx: &mut Ctx) {
    ctx.level = "fault_enumeration";
    ctx.rule = "for each generated pair (home engine with tags, victim engine of 0-12 rules of every network/cosmetic shape, half of them with 1-2 rules whose pattern begins or ends with a multi-byte character, debug/optimise flags): the victim's valid buffer b is corrupted by EVERY prefix, EVERY single-bit flip, byte substitutions at every offset (28 msgpack-marker values; thorough: all 255 on a quarter of the buffers), 600/4000 seeded multi-byte corruptions/insertions/deletions/splices/arbitrary strings, 4 inputs of 1 MiB and more that must be rejected (tried first, while the home engine still holds state the format does not carry: a scriptlet rule from a list with permissions), and every header variant (empty, 1-4 magic bytes, magic + each version byte, gzip header, declared-huge-length bodies). Each input is loaded into the home engine in a child process with a tracking allocator: no panic/abort, no single allocation above 64 MiB + 64*len; on Err the engine's serialized state, tags and probe answers are unchanged; on Ok a battery of queries + serialize_raw runs, the caller's tags are kept, and re-loading the home bytes restores the initial state. Non-trivial input = corrupted input that decodes successfully or is rejected only by the msgpack layer (distinct by content hash).".into();
    ctx.assumptions = vec![
        "shards run in child processes; a dead child is re-run on its last announced buffer with per-input tracing to find the culprit".into(),
        "allocation requests >= 1 GiB are refused by the harness allocator (the process then aborts, which is reported)".into(),
    ];
    // regression inputs first (in-process is fine: they are fixed)
    for (_n, c) in crate::run::regression_cases::<BufCase>("C10", "buf") {
        let cj = serde_json::to_string(&c).unwrap();
        let args: Vec<String> = vec!["worker".into(), "one".into(), "C10".into(), "buf".into()];
        let out = run_child(&args, Some(&cj), &[]);
        *ctx.stats.sub.entry("regression_replays".into()).or_insert(0) += 1;
        if let Some(f) = out.lines.iter().find_map(|l| l.strip_prefix("F ")) {
            if let Ok(f) = serde_json::from_str::<Failure>(f) {
                ctx.fail(f);
            }
        } else if !out.lines.iter().any(|l| l == "OK") {
            ctx.fail(Failure { check: "buf".into(), case: serde_json::to_value(&c).unwrap(), message: format!("process terminated ({:?}) on a regression input", out.status) });
        }
    }
    let n = ctx.tier.pick(48, 1600);
    run_isolated(ctx, "buf", n, &locate);
}

pub fn replay(ctx: &mut Ctx, v: &Value) {
    // in a child process, so that an abort is reported rather than suffered
    let cj = serde_json::to_string(&v.get("case").cloned().unwrap_or(Value::Null)).unwrap();
    let args: Vec<String> = vec!["worker".into(), "one".into(), "C10".into(), "buf".into()];
    let out = run_child(&args, Some(&cj), &[]);
    if out.lines.iter().any(|l| l == "OK") {
        println!("replay passes: C10 / buf");
        let _ = replay_file::<BufCase>;
    } else if let Some(f) = out.lines.iter().find_map(|l| l.strip_prefix("F ")) {
        if let Ok(f) = serde_json::from_str::<Failure>(f) {
            ctx.fail(f);
        }
    } else {
        ctx.fail(Failure { check: "buf".into(), case: v.get("case").cloned().unwrap_or(Value::Null), message: format!("process terminated ({:?})", out.status) });
    }
}
