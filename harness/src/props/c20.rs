//! C20 — content-blocking export is total and emits only well-formed, ordered rules.

use crate::eng::*;
use crate::gen::{self, NetCfg, OptCfg};
use crate::model::safari_re;
use crate::run::{drive, guard, replay_file, Case, Ctx, Obs, Tape};
use adblock::content_blocking::{CbRule, CbRuleEquivalent, CbType};
use adblock::filters::network::NetworkMatchable;
use adblock::lists::{parse_filter, FilterSet, ParsedFilter};
use adblock::regex_manager::RegexManager;
use adblock::request::Request;
use serde::{Deserialize, Serialize};
use serde_json::Value;
use std::convert::TryFrom;

#[derive(Clone, Debug, Serialize, Deserialize)]
pub struct CbCase {
    pub rules: Vec<String>,
    pub urls: Vec<String>,
}
impl Case for CbCase {
    fn smaller(&self) -> Vec<Self> {
        let mut v = vec![];
        if self.rules.len() > 2 {
            let h = self.rules.len() / 2;
            v.push(CbCase { rules: self.rules[..h].to_vec(), urls: self.urls.clone() });
            v.push(CbCase { rules: self.rules[h..].to_vec(), urls: self.urls.clone() });
        }
        for i in 0..self.rules.len() {
            let mut c = self.clone();
            c.rules.remove(i);
            v.push(c);
        }
        if self.urls.len() > 1 {
            for u in &self.urls {
                v.push(CbCase { rules: self.rules.clone(), urls: vec![u.clone()] });
            }
        }
        v
    }
}

fn strings_of(r: &CbRule) -> Vec<&String> {
    let mut v = vec![&r.trigger.url_filter];
    if let Some(s) = &r.action.selector {
        v.push(s);
    }
    for l in [&r.trigger.if_domain, &r.trigger.unless_domain, &r.trigger.if_top_url, &r.trigger.unless_top_url] {
        if let Some(l) = l {
            v.extend(l.iter());
        }
    }
    v
}

pub fn check_case(c: &CbCase, obs: &mut Obs) -> Result<(), String> {
    check_case_with(c, obs, true)
}

fn probe_ws() -> Result<(), String> {
    check_case_with(&CbCase { rules: vec!["@@".into()], urls: vec!["ws://ad.com/".into()] }, &mut Obs::default(), false)
}

/// `ws_excluded`: finding C20-empty-pattern-excludes-websocket is open => websocket URLs are not
/// used for the inclusion check of rules exported as '^http...'
pub fn check_case_with(c: &CbCase, obs: &mut Obs, ws_excluded: bool) -> Result<(), String> {
    let mut fs = FilterSet::new(true);
    fs.add_filters(&c.rules, std_opts());
    let out = guard(|| fs.into_content_blocking()).map_err(|p| format!("into_content_blocking panicked: {}", p))?;
    obs.inner_evals += 1;
    let (cb, used) = match out {
        Ok(x) => x,
        Err(()) => return Err("into_content_blocking failed on a debug-mode set".into()),
    };
    // per-rule conversion, network rules first, then cosmetic ones, each in list order
    let mut expect_used: Vec<String> = vec![];
    let mut expect_count = 0usize;
    let mut any_network = false;
    let mut per_rule: Vec<(String, Vec<CbRule>)> = vec![];
    for pass in 0..2 {
        for l in &c.rules {
            let Ok(pf) = parse_filter(l, true, std_opts()) else { continue };
            let is_net = matches!(pf, ParsedFilter::Network(_));
            if (pass == 0) != is_net {
                continue;
            }
            let conv = guard(|| CbRuleEquivalent::try_from(pf)).map_err(|p| format!("converting {:?} panicked: {}", l, p))?;
            if let Ok(eq) = conv {
                let rules: Vec<CbRule> = eq.into_iter().collect();
                expect_used.push(l.trim().to_string());
                expect_count += rules.len();
                if is_net {
                    any_network = true;
                }
                per_rule.push((l.clone(), rules));
            }
        }
    }
    if any_network {
        expect_count += 1;
    }
    if used != expect_used {
        return Err(format!("filters_used {:?}, expected {:?}", used, expect_used));
    }
    if cb.len() != expect_count {
        return Err(format!("{} rules emitted, expected {} (from {:?})", cb.len(), expect_count, expect_used));
    }
    let mut seen_ignore = false;
    for r in &cb {
        for s in strings_of(r) {
            if !s.is_ascii() {
                return Err(format!("emitted rule contains non-ASCII text {:?}: {:?}", s, r));
            }
        }
        if let Err(e) = safari_re::accepts(&r.trigger.url_filter) {
            return Err(format!("url-filter {:?} is outside the regex subset Safari accepts: {} (rule {:?})", r.trigger.url_filter, e, r));
        }
        if r.trigger.if_domain.is_some() && r.trigger.unless_domain.is_some() {
            return Err(format!("rule carries both if-domain and unless-domain: {:?}", r));
        }
        if r.action.typ == CbType::IgnorePreviousRules {
            seen_ignore = true;
        } else if seen_ignore {
            return Err(format!("a non-ignore rule follows an ignore-previous-rules rule: {:?}", r));
        }
    }
    if !cb.is_empty() {
        obs.label("converted");
    }
    // inclusion for plain patterns: whatever the original rule matches, the emitted pattern matches
    for (line, rules) in &per_rule {
        let Ok(ParsedFilter::Network(f)) = parse_filter(line, true, std_opts()) else { continue };
        let pat = line.trim().trim_start_matches("@@");
        let pat = pat.rfind('$').map(|i| &pat[..i]).unwrap_or(pat);
        if pat.contains('*') || pat.contains('^') {
            continue;
        }
        let has_domain = rules.iter().any(|r| r.trigger.if_domain.is_some() || r.trigger.unless_domain.is_some());
        let non_default = rules.iter().any(|r| r.trigger.resource_type.is_some() || !r.trigger.load_type.is_empty());
        let anchored = pat.starts_with('|') || pat.ends_with('|');
        if has_domain || non_default || anchored {
            obs.nontrivial = true;
        }
        let r0 = &rules[0];
        let cs = r0.trigger.url_filter_is_case_sensitive.unwrap_or(false);
        let re = regex::RegexBuilder::new(&r0.trigger.url_filter).case_insensitive(!cs).build().map_err(|e| format!("url-filter {:?} does not compile: {}", r0.trigger.url_filter, e))?;
        for u in &c.urls {
            for ty in ["script", "image", "document", "xhr", "font"] {
                for src in ["https://site.example/", u.as_str()] {
                    let Ok(q) = Request::new(u, src, ty) else { continue };
                    if !f.matches(&q, &mut RegexManager::default()) {
                        continue;
                    }
                    if q.hostname.split('.').any(|l| l.is_empty()) || !q.hostname.chars().all(|ch| ch.is_ascii_alphanumeric() || ch == '.' || ch == '-') {
                        obs.exclude("inclusion URL with a malformed host (empty label / odd characters)");
                        continue;
                    }
                    if ws_excluded && q.url.starts_with("ws") && rules[0].trigger.url_filter.starts_with("^http") {
                        obs.exclude("websocket URL vs '^http..' url-filter (known finding)");
                        continue;
                    }
                    obs.inner_evals += 1;
                    obs.label("inclusion-checked");
                    if !re.is_match(&q.url) {
                        return Err(format!("rule {:?} matches {:?} but its url-filter {:?} does not", line, q.url, r0.trigger.url_filter));
                    }
                }
            }
        }
    }
    Ok(())
}

fn decode(t: &mut Tape) -> CbCase {
    let npool = 1 + t.pick(3);
    let mut pool = vec![];
    let mut hosts = vec![];
    for _ in 0..npool {
        let mut p = gen::url_parts(t);
        p.port = None;
        hosts.push((p.host.clone(), p.reg.clone()));
        pool.push(p.render());
    }
    let cfg = OptCfg { allow_badfilter: true, ..Default::default() };
    let mut rules = vec![];
    let nrules = if t.chance(1, 25) { 40 + t.pick(500) } else { 1 + t.pick(12) };
    for _ in 0..nrules {
        let r = match t.pick(12) {
            0..=4 => gen::net_rule(t, &pool, &hosts, &cfg),
            5..=6 => gen::cosmetic_rule(t, &hosts),
            7 => {
                // non-ASCII / odd domains in options
                let d = t.choose(&["bücher.de", "пример.рф", "~bücher.de", "a.com|~b.com", "a.com|~/b[0-9]+\\.com/", "~b.com|/a[0-9]+\\.com/", "/x\\.com/|a.com|~c.com", "ex ample.com", "xn--", "ü", "a.com|ü.de", "~a.com|~ü.de", "A.COM", "-a-.com", "a..b", "😀.com", "\u{200b}.com", "a\u{fffd}.com", "\u{fffd}", "a.com|\u{fffd}b.com", "xn--a\u{fffd}", "é\u{0301}\u{0301}.com", "aaaaaaaaaaaaaaaaaaaaaaaaaaaaaaaaaaaaaaaaaaaaaaaaaaaaaaaaaaaaaaaaaaaaaaaaü.com", "a\u{202e}b.com", "\u{0}.com", "ß.de", "ǆ.com"]);
                let mut d = d.to_string();
                if t.chance(1, 3) {
                    // labels over characters whose case mappings change UTF-8 length or expand
                    d = String::new();
                    for k in 0..(1 + t.pick(3)) {
                        if k > 0 {
                            d.push('|');
                        }
                        if t.chance(1, 4) {
                            d.push('~');
                        }
                        for _ in 0..(1 + t.pick(5)) {
                            d.push(t.choose(&['a', 'B', 'x', 'ü', 'Ü', '\u{212A}', '\u{0130}', '\u{1E9E}', '\u{023A}', '\u{2126}', 'ς', 'Σ', '\u{01C5}', 'ﬁ', 'İ', 'ı', '9']));
                        }
                        d.push_str(t.choose(&[".com", ".de", ".example", ""]));
                    }
                }
                let key = t.choose(&["domain", "from"]);
                format!("{}${}={}{}", t.choose(&["||ads.example.com^", "/banner/", "|https://x.com/a", "ad$x"]), key, d, t.choose(&["", ",script", ",third-party", ",~image", ",match-case"]))
            }
            8 => {
                // '$' inside patterns and scheme specials with negated types
                t.choose(&["a$b$script", "/ad$/$image", "|ws://$~websocket", "|https://$~script,~image", "|http://", "||x.com^$websocket", "||x.com^$ping", "||x.com^$other,object", "/a[$]b/", "||x.com^$doc", "||x.com^$document,script", "*$script", "||*.com^", "||x.*^", "|||", "||x.com^|", "x$domain=a.com,domain=~b.com", "a$domain=evil,b$domain=y.com", "/re(g)?ex/$script", "||x.com^$redirect=noop.js", "||x.com^$csp=x", "@@||x.com^$generichide", "||x.com^$removeparam=a", "||x.com^$important,match-case", "/Path/$match-case"]).to_string()
            }
            9 => {
                // cosmetic with non-ASCII / entity / negated locations
                let loc = t.choose(&["bücher.de", "~bücher.de", "example.*", "~example.*", "a.com,~b.a.com", "пример.рф,a.com", "/regex/", "a.com,/re/", "xn--invalid-ü", ""]);
                format!("{}{}{}", loc, t.choose(&["##", "#@#"]), t.choose(&[".ad", ".ünï", "div > .x", "+js(x)", ".a:style(color:red)", "a[href=\"ü\"]"]))
            }
            10 => {
                // every resource-type subset (bit pattern from the tape)
                let bits = t.next();
                let names = ["script", "image", "stylesheet", "xhr", "subdocument", "font", "media", "object", "ping", "websocket", "other", "document"];
                let mut o = vec![];
                for (k, n) in names.iter().enumerate() {
                    if bits & (1 << k) != 0 {
                        o.push(if bits & 0x8000 != 0 && k % 3 == 0 && *n != "document" { format!("~{}", n) } else { n.to_string() });
                    }
                }
                // ... on ASCII and non-ASCII patterns (non-ASCII must be refused on every conversion path)
                let pat = t.choose(&["||x.com/p", "||x.com/p", "/bükerbanner.", "||rg.info/uploads/660х90_", "@@||x.com/Upload/bü", "/ad-日本/", "||x.com/é^"]);
                if o.is_empty() { "||x.com^".to_string() } else { format!("{}${}", pat, o.join(",")) }
            }
            _ => t.choose(gen::JUNK).to_string(),
        };
        rules.push(r);
    }
    let mut urls = pool.clone();
    for _ in 0..2 {
        let b = t.choose_ref(&pool).clone();
        urls.push(gen::perturb(t, &b));
    }
    let _ = NetCfg::default();
    CbCase { rules, urls }
}

pub fn check(ctx: &mut Ctx) {
    ctx.rule = "debug-mode FilterSets of 1-12 lines (1 in 25: 40-540 lines) from the network and cosmetic generators plus pools biased to: non-ASCII / malformed / mixed if+unless domains (incl. regex entries '/re/') in domain= and from= (incl. generated labels over characters whose case mapping changes UTF-8 length: U+212A, U+0130, U+1E9E, U+023A, U+2126, U+01C5, ligatures), '$' inside patterns and regexes, scheme-only patterns with negated types, hostname wildcards, every resource-type subset (bit pattern, on ASCII and non-ASCII patterns), match-case, entity / negated / regex / non-ASCII cosmetic locations, rules the exporter must refuse (redirect, csp, generichide, removeparam, badfilter, full regex). Validity predicates on the output: no panic; all strings ASCII; url-filter accepted by a recogniser of Safari's regex subset; never both if-domain and unless-domain; no non-ignore rule after an ignore-previous-rules rule; filters_used == the lines (network first, then cosmetic, in order) whose individual conversion succeeds, and the number of emitted rules equals the sum of their outputs (+1 first-party-document rule iff a network rule converted); inclusion: for patterns without * and ^, every generated URL the rule matches (5 request types x 2 sources) is matched by the emitted url-filter. Non-trivial = converted plain-pattern rule with a domain list, non-default types/party, or an anchor.".into();
    ctx.assumptions = vec![
        "set-level output is compared with the library's own per-rule conversion (CbRuleEquivalent::try_from); the predicates on each emitted rule are independent".into(),
        "inclusion URLs carry no userinfo and no port".into(),
    ];
    let open = ctx.is_open("C20-empty-pattern-excludes-websocket");
    ctx.probe("C20-empty-pattern-excludes-websocket", serde_json::json!({"rules": ["@@"], "url": "ws://ad.com/"}), probe_ws());
    let n = ctx.tier.pick(60_000, 1_500_000);
    drive(ctx, "export", n, 500, &decode, &move |c: &CbCase, o: &mut Obs| check_case_with(c, o, open));
}

pub fn replay(ctx: &mut Ctx, v: &Value) {
    let open = ctx.is_open("C20-empty-pattern-excludes-websocket");
    replay_file::<CbCase>(ctx, v, &move |c: &CbCase, o: &mut Obs| check_case_with(c, o, open));
    let _ = check_case;
}
