//! C03 — rule options restrict matching exactly as the option semantics specify.

use crate::eng::*;
use crate::model::opts::{Modifier, OptAst, ReqFacts};
use crate::run::{drive, replay_file, run_indexed, Case, Ctx, Obs, Tape};
use adblock::lists::{parse_filter, ParsedFilter};
use adblock::request::Request;
use serde::{Deserialize, Serialize};
use serde_json::{json, Value};

const REQ_TYPES: &[&str] = &[
    "script", "image", "imageset", "stylesheet", "xmlhttprequest", "xhr", "document", "main_frame", "subdocument", "sub_frame", "font", "media",
    "object", "object_subrequest", "ping", "beacon", "websocket", "other", "csp_report", "speculative", "web_manifest", "xbl", "xml_dtd", "xslt",
    "", "junk-type",
];
const SCHEMES: &[&str] = &["http", "https", "ws", "wss", "ftp", "data"];
const TYPE_SPELLINGS: &[&str] = &["script", "image", "stylesheet", "xmlhttprequest", "subdocument", "font", "media", "object", "ping", "websocket", "other"];
const TYPE_ALIASES: &[&str] = &["css", "xhr", "frame", "object-subrequest", "beacon", "doc"];
const PARTIES: &[Option<&str>] = &[None, Some("third-party"), Some("~third-party"), Some("3p"), Some("~3p"), Some("first-party"), Some("~first-party"), Some("1p"), Some("~1p")];

#[derive(Clone, Debug, Serialize, Deserialize)]
pub struct OptCase {
    pub ast: OptAst,
    /// None = the full request grid (types x parties x schemes); Some = these requests only
    pub reqs: Option<Vec<(String, String, bool, Option<String>)>>, // (raw type, scheme, third party, source host)
    /// Some("ws" | "http" | "https"): the rule's pattern is the scheme-only pattern `|<scheme>://`
    #[serde(default)]
    pub scheme_form: Option<String>,
    /// the rendered option list is rotated by this many places (option order carries no meaning)
    #[serde(default)]
    pub rot: usize,
}

impl Case for OptCase {
    fn smaller(&self) -> Vec<Self> {
        let mut v = vec![];
        if let Some(rs) = &self.reqs {
            if rs.len() > 1 {
                for r in rs {
                    v.push(OptCase { ast: self.ast.clone(), reqs: Some(vec![r.clone()]), scheme_form: self.scheme_form.clone(), rot: self.rot });
                }
            }
            for i in 0..self.ast.types.len() {
                let mut a = self.ast.clone();
                a.types.remove(i);
                v.push(OptCase { ast: a, reqs: self.reqs.clone(), scheme_form: self.scheme_form.clone(), rot: self.rot });
            }
            for i in 0..self.ast.domains.len() {
                let mut a = self.ast.clone();
                a.domains.remove(i);
                v.push(OptCase { ast: a, reqs: self.reqs.clone(), scheme_form: self.scheme_form.clone(), rot: self.rot });
            }
            if self.ast.party.is_some() {
                let mut a = self.ast.clone();
                a.party = None;
                v.push(OptCase { ast: a, reqs: self.reqs.clone(), scheme_form: self.scheme_form.clone(), rot: self.rot });
            }
            if self.ast.important {
                let mut a = self.ast.clone();
                a.important = false;
                v.push(OptCase { ast: a, reqs: self.reqs.clone(), scheme_form: self.scheme_form.clone(), rot: self.rot });
            }
        }
        v
    }
}

const HOST: &str = "sub.target-site.com";

fn render_rot(a: &OptAst, rot: usize) -> String {
    let o = a.render();
    let mut parts: Vec<&str> = o.split(',').collect();
    if parts.len() > 1 {
        let r = rot % parts.len();
        parts.rotate_left(r);
    }
    parts.join(",")
}

fn rule_line_form(a: &OptAst, scheme_form: &Option<String>, rot: usize) -> String {
    match scheme_form {
        Some(sf) => {
            let o = render_rot(a, rot);
            format!("{}|{}://{}{}", if a.exception { "@@" } else { "" }, sf, if o.is_empty() { "" } else { "$" }, o)
        }
        None => rule_line(a, rot),
    }
}

fn rule_line(a: &OptAst, rot: usize) -> String {
    let pat = if a.host_caret_form { format!("||{}^", HOST) } else { "/cpath/".to_string() };
    let o = render_rot(a, rot);
    format!("{}{}{}{}", if a.exception { "@@" } else { "" }, pat, if o.is_empty() { "" } else { "$" }, o)
}

fn url_for(scheme: &str) -> String {
    if scheme == "data" {
        "data:text/plain,/cpath/x?p=1".to_string()
    } else {
        format!("{}://{}/cpath/x?p=1&q=2", scheme, HOST)
    }
}

fn source_url(third: bool, source_host: &Option<String>) -> String {
    match source_host {
        Some(h) => format!("https://{}/page", h),
        None => {
            if third { String::new() } else { format!("https://www.target-site.com/") }
        }
    }
}

fn grid() -> Vec<(String, String, bool, Option<String>)> {
    let mut v = vec![];
    // third-party sources whose name merely ENDS with the target's registrable domain
    for t in ["script", "image", "document"] {
        v.push((t.to_string(), "https".to_string(), true, Some("nottarget-site.com".to_string())));
        v.push((t.to_string(), "http".to_string(), true, Some("www.xtarget-site.com".to_string())));
    }
    for (t, s) in [("script", "HTTPS"), ("image", "Http"), ("other", "WSS"), ("websocket", "Ws"), ("document", "hTTps"), ("xhr", "FTP")] {
        v.push((t.to_string(), s.to_string(), false, Some("other.target-site.com".to_string())));
        v.push((t.to_string(), s.to_string(), true, Some("unrelated.org".to_string())));
    }
    for t in REQ_TYPES {
        for s in SCHEMES {
            v.push((t.to_string(), s.to_string(), false, Some("other.target-site.com".to_string())));
            v.push((t.to_string(), s.to_string(), true, Some("unrelated.org".to_string())));
        }
    }
    v
}

pub fn check_case(c: &OptCase, obs: &mut Obs) -> Result<(), String> {
    let line = rule_line_form(&c.ast, &c.scheme_form, c.rot);
    let f = match parse_filter(&line, true, std_opts()) {
        Ok(ParsedFilter::Network(f)) => f,
        _ => {
            obs.exclude("option combination rejected by the parser");
            return Ok(());
        }
    };
    let g;
    let reqs = match &c.reqs {
        Some(r) => r,
        None => {
            g = grid();
            &g
        }
    };
    // engine-level observation of a single-rule list
    let helper_blocker = "/cpath/".to_string(); // every grid URL contains /cpath/
    let rules: Vec<String> = if c.ast.exception && c.ast.modifier == Modifier::None { vec![line.clone(), helper_blocker] } else { vec![line.clone()] };
    let engine = build_engine(&rules, false, false, &[]);
    // the same single-rule list after a serialize -> deserialize round trip (options are stored
    // in the serialized rule; they must restrict matching exactly as before)
    let mut engine_rt = adblock::Engine::new(false);
    engine_rt.deserialize(&engine.serialize_raw().map_err(|e| format!("serialize: {:?}", e))?).map_err(|e| format!("deserialize of own bytes: {:?}", e))?;
    for (raw_type, scheme_as_written, third, source_host) in reqs {
        // schemes are case-insensitive: the URL is written as generated, the reference sees lower case
        let url = url_for(scheme_as_written);
        let scheme = &scheme_as_written.to_ascii_lowercase();
        let src = source_url(*third, source_host);
        let Ok(req) = Request::new(&url, &src, raw_type) else {
            obs.label("unparsable-request");
            // host-less URLs of unsupported schemes (data:, ...) can still arrive pre-parsed: they
            // are never eligible for matching
            if !["http", "https", "ws", "wss"].contains(&scheme.as_str()) {
                let p = Request::preparsed(&url, "", source_host.as_deref().unwrap_or(""), raw_type, *third);
                obs.inner_evals += 1;
                // (the gate is the request's is_supported flag, which the engine honours; the bare
                // per-rule matcher does not look at it)
                let b = engine.check_network_request(&p);
                if p.is_supported || b.matched || b.exception.is_some() || b.rewritten_url.is_some() {
                    return Err(format!("rule {:?}: a pre-parsed request for {:?} (unsupported scheme) is treated as eligible: is_supported={}, engine verdict {:?}", line, url, p.is_supported, Verdict::of(&b)));
                }
            }
            continue;
        };
        obs.inner_evals += 1;
        let supported = ["http", "https", "ws", "wss"].contains(&scheme.as_str());
        let facts = ReqFacts { raw_type, scheme, third_party: *third, source_host: source_host.as_deref() };
        let pattern_can_match = match c.scheme_form.as_deref() {
            None => true,
            Some(sf) => {
                if sf == "ws" && scheme == "wss" {
                    continue; // known finding C02-scheme-pattern-mask: |ws:// also matches wss://
                }
                sf == scheme.as_str()
            }
        };
        let want_rule = pattern_can_match && c.ast.applies(&facts);
        if req.is_third_party != *third {
            return Err(format!("request {} from {:?}: the party options cannot be decided correctly because the request is classified third_party={} although by construction (registrable domains) it is {}", url, src, req.is_third_party, third));
        }
        if supported {
            let got = rule_matches(&f, &req);
            if got != want_rule {
                return Err(format!(
                    "REPLAY_CASE:{}\nrule {:?}: request (type {:?}, scheme {}, third-party {}, source {:?}) reference says applies={}, NetworkFilter::matches says {}",
                    serde_json::to_string(&OptCase { ast: c.ast.clone(), reqs: Some(vec![(raw_type.clone(), scheme_as_written.clone(), *third, source_host.clone())]), scheme_form: c.scheme_form.clone(), rot: c.rot }).unwrap(),
                    line, raw_type, scheme, third, source_host, want_rule, got
                ));
            }
        }
        let want = want_rule && supported;
        if want {
            obs.nontrivial = true;
        }
        if want { obs.label("applies"); } else { obs.label("does-not-apply"); }
        // engine level
        for (engine, how) in [(&engine, "single-rule engine"), (&engine_rt, "single-rule engine after serialize->deserialize")] {
        let b = engine.check_network_request(&req);
        let engine_says = match (&c.ast.modifier, c.ast.exception) {
            (Modifier::None, false) => b.matched,
            (Modifier::None, true) => {
                // helper blocker matches every supported non-document request of a network type;
                // observable only when the helper itself applies
                let helper = OptAst { types: vec![], party: None, party2: None, domains: vec![], important: false, exception: false, modifier: Modifier::None, host_caret_form: false };
                if !(helper.applies(&facts) && supported) {
                    continue;
                }
                !b.matched && b.exception.is_some()
            }
            (Modifier::Csp, false) => {
                let t = crate::model::opts::request_type_class(raw_type, scheme);
                if t != Some("document") && t != Some("subdocument") {
                    if engine.get_csp_directives(&req).is_some() {
                        return Err(format!("rule {:?}: csp returned for non-document request type {:?}", line, raw_type));
                    }
                    continue;
                }
                if !supported {
                    continue; // get_csp_directives has no scheme gate of its own; C15 covers csp
                }
                engine.get_csp_directives(&req).is_some()
            }
            (Modifier::Csp, true) => continue,
            (Modifier::Removeparam, _) => b.rewritten_url.is_some(),
        };
        if engine_says != want {
            return Err(format!(
                "REPLAY_CASE:{}\nrule {:?}: request (type {:?}, scheme {}, third-party {}, source {:?}) reference says applies={}, {} says {} ({:?})",
                serde_json::to_string(&OptCase { ast: c.ast.clone(), reqs: Some(vec![(raw_type.clone(), scheme_as_written.clone(), *third, source_host.clone())]), scheme_form: c.scheme_form.clone(), rot: c.rot }).unwrap(),
                line, raw_type, scheme, third, source_host, want, how, engine_says, Verdict::of(&b)
            ));
        }
        }
    }
    Ok(())
}

// ---- exhaustive part: type-option sets x party x exception x modifier x pattern form ---------

fn type_sets() -> Vec<Vec<(String, bool)>> {
    let mut v: Vec<Vec<(String, bool)>> = vec![vec![]];
    let all: Vec<&str> = TYPE_SPELLINGS.iter().cloned().collect();
    for t in &all {
        v.push(vec![(t.to_string(), false)]);
        v.push(vec![(t.to_string(), true)]);
    }
    for a in TYPE_ALIASES {
        v.push(vec![(a.to_string(), false)]);
        if *a != "doc" {
            v.push(vec![(a.to_string(), true)]);
        }
    }
    v.push(vec![("document".to_string(), false)]);
    for i in 0..all.len() {
        for j in (i + 1)..all.len() {
            for (ni, nj) in [(false, false), (true, true), (false, true), (true, false)] {
                v.push(vec![(all[i].to_string(), ni), (all[j].to_string(), nj)]);
            }
        }
        v.push(vec![(all[i].to_string(), false), ("document".to_string(), false)]);
        v.push(vec![(all[i].to_string(), true), ("document".to_string(), false)]);
    }
    // a few triples
    v.push(vec![("script".into(), false), ("image".into(), false), ("font".into(), true)]);
    v.push(vec![("script".into(), true), ("image".into(), true), ("xhr".into(), true)]);
    v.push(vec![("css".into(), false), ("frame".into(), false), ("doc".into(), false)]);
    v.push(vec![("websocket".into(), true), ("ping".into(), false), ("other".into(), false)]);
    v
}

fn nth_ast(i: u64, sets: &[Vec<(String, bool)>]) -> Option<OptAst> {
    let mut i = i;
    let ts = &sets[(i % sets.len() as u64) as usize];
    i /= sets.len() as u64;
    let party = PARTIES[(i % PARTIES.len() as u64) as usize];
    i /= PARTIES.len() as u64;
    let exception = i % 2 == 1;
    i /= 2;
    let modifier = match i % 3 {
        0 => Modifier::None,
        1 => Modifier::Csp,
        _ => Modifier::Removeparam,
    };
    i /= 3;
    let host_caret_form = i % 2 == 1;
    i /= 2;
    let important = i % 2 == 1;
    i /= 2;
    if i > 0 {
        return None;
    }
    Some(OptAst { types: ts.clone(), party: party.map(|s| s.to_string()), party2: None, domains: vec![], important, exception, modifier, host_caret_form })
}

// ---- random part: domain lists ----------------------------------------------------------------

const DOMS: &[&str] = &["www.a.com", "www.site.co.uk", "a.com", "b.a.com", "c.b.a.com", "x.org", "y.x.org", "co.uk", "site.co.uk", "w.site.co.uk", "com", "example.net", "bücher.de", "sub.bücher.de", "пример.рф"];

fn decode_domains(t: &mut Tape) -> OptCase {
    let n = 1 + t.pick(4);
    let mut domains = vec![];
    for _ in 0..n {
        domains.push((t.choose(DOMS).to_string(), t.chance(1, 3)));
    }
    if t.chance(1, 6) {
        // long lists (sorted-hash binary search, union pre-filter, thresholds such as 16 entries)
        let m = [15usize, 16, 17, 31, 32, 33, 64, 100][t.pick(8)];
        let neg_all = t.chance(1, 4);
        for i in 0..m {
            domains.push((format!("d{}.example", i), neg_all || t.chance(1, 10)));
        }
    }
    if t.chance(1, 6) {
        let d = domains[0].clone();
        domains.push(d); // duplicate
    }
    let types = match t.pick(4) {
        0 => vec![(t.choose(TYPE_SPELLINGS).to_string(), t.chance(1, 3))],
        _ => vec![],
    };
    let ast = OptAst {
        types,
        party: if t.chance(1, 4) { PARTIES[t.pick(PARTIES.len())].map(|s| s.to_string()) } else { None },
        party2: None,
        domains,
        important: t.chance(1, 6),
        exception: t.chance(1, 4),
        modifier: Modifier::None,
        host_caret_form: t.chance(1, 4),
    };
    // sources: listed domains, their subdomains, parents, unrelated, absent
    let mut reqs = vec![];
    for _ in 0..(3 + t.pick(6)) {
        let src: Option<String> = match t.pick(8) {
            0 => None,
            1 => Some(t.choose(DOMS).to_string()),
            2 => Some(format!("sub.{}", t.choose(DOMS))),
            3 => Some(format!("deep.sub.{}", t.choose(DOMS))),
            4 => {
                let d = t.choose(DOMS);
                Some(d.split_once('.').map(|x| x.1.to_string()).unwrap_or(d.to_string()))
            }
            5 if t.chance(1, 2) => {
                let d = t.choose(DOMS);
                Some(deep(t, d))
            }
            5 => Some(format!("x{}", t.choose(DOMS))),
            6 => Some(if t.chance(1, 2) { "unrelated.io".to_string() } else { format!("{}d{}.example", t.choose(&["", "sub.", "x"]), t.choose(&[0usize, 1, 14, 15, 16, 17, 31, 32, 63, 99, 100])) }),
            _ => Some(format!("{}.evil.io", t.choose(DOMS))),
        };
        // party is computed from registrable domains: the target is sub.target-site.com, so every
        // source above is third-party; absent sources are third-party as well
        reqs.push((t.choose(&["script", "image", "xhr", "document", "other"]).to_string(), t.choose(&["https", "http", "wss"]).to_string(), true, src));
    }
    OptCase { ast, reqs: Some(reqs), scheme_form: None, rot: t.pick(4) }
}

// ---- groups: several domain-restricted rules in ONE token bucket of an optimised engine ---------

#[derive(Clone, Debug, Serialize, Deserialize)]
pub struct GroupCase {
    /// per rule: its domain= list ((domain, negated)); an empty list renders no domain option
    pub lists: Vec<Vec<(String, bool)>>,
    pub types: Vec<(String, bool)>,
    pub exception: bool,
    pub optimize: bool,
    /// (rule index, source host)
    pub probes: Vec<(usize, Option<String>)>,
}

impl Case for GroupCase {
    fn smaller(&self) -> Vec<Self> {
        let mut v = vec![];
        if self.probes.len() > 1 {
            for p in &self.probes {
                let mut c = self.clone();
                c.probes = vec![p.clone()];
                v.push(c);
            }
        }
        // dropping a rule keeps indices stable only for the last one
        if self.lists.len() > 1 && self.probes.iter().all(|p| p.0 + 1 < self.lists.len()) {
            let mut c = self.clone();
            c.lists.pop();
            v.push(c);
        }
        for i in 0..self.lists.len() {
            for j in 0..self.lists[i].len() {
                let mut c = self.clone();
                c.lists[i].remove(j);
                v.push(c);
            }
        }
        if !self.types.is_empty() {
            let mut c = self.clone();
            c.types.clear();
            v.push(c);
        }
        v
    }
}

fn group_ast(c: &GroupCase, k: usize) -> OptAst {
    OptAst { types: c.types.clone(), party: None, party2: None, domains: c.lists[k].clone(), important: false, exception: c.exception, modifier: Modifier::None, host_caret_form: false }
}

pub fn check_group(c: &GroupCase, obs: &mut Obs) -> Result<(), String> {
    // `/cpath/slotNN`: the trailing slotNN is never a token, so every rule is indexed under `cpath`
    let mut rules = vec![];
    for k in 0..c.lists.len() {
        let o = group_ast(c, k).render();
        rules.push(format!("{}/cpath/slot{}{}{}", if c.exception { "@@" } else { "" }, 10 + k, if o.is_empty() { "" } else { "$" }, o));
    }
    for r in &rules {
        if !matches!(parse_filter(r, true, std_opts()), Ok(ParsedFilter::Network(_))) {
            obs.exclude("option combination rejected by the parser");
            return Ok(());
        }
    }
    if c.exception {
        rules.push("/cpath/".to_string());
    }
    let engine = build_engine(&rules, false, c.optimize, &[]);
    if c.lists.iter().any(|l| l.len() >= 8) {
        obs.label("list>=8");
    }
    for (k, src) in &c.probes {
        let k = *k % c.lists.len();
        let url = format!("https://{}/cpath/slot{}?p=1", HOST, 10 + k);
        let s = source_url(true, src);
        let Ok(req) = Request::new(&url, &s, "script") else { continue };
        obs.inner_evals += 1;
        let facts = ReqFacts { raw_type: "script", scheme: "https", third_party: true, source_host: src.as_deref() };
        let want = group_ast(c, k).applies(&facts);
        if want {
            obs.nontrivial = true;
        }
        if src.as_deref().map_or(false, |h| h.matches('.').count() >= 9) {
            obs.label("source>=10-labels");
        }
        let b = engine.check_network_request(&req);
        let got = if c.exception { !b.matched && b.exception.is_some() } else { b.matched };
        if got != want {
            let mut one = c.clone();
            one.probes = vec![(k, src.clone())];
            return Err(format!(
                "REPLAY_CASE:{}\nrules {:?} (optimize={}): request {} from {:?}: reference says rule #{} applies={}, engine says {} ({:?})",
                serde_json::to_string(&one).unwrap(), rules, c.optimize, url, src, k, want, got, Verdict::of(&b)
            ));
        }
    }
    Ok(())
}

fn deep(t: &mut Tape, base: &str) -> String {
    let n = t.pick(14);
    let mut s = String::new();
    for i in (0..n).rev() {
        s.push_str(&format!("l{}.", i + 1));
    }
    s + base
}

fn decode_group(t: &mut Tape) -> GroupCase {
    let n = 2 + t.pick(5);
    let pool = 8 + t.pick(40);
    let mut lists = vec![];
    for _ in 0..n {
        let m = match t.pick(6) {
            0 => 0,
            1 | 2 => 1 + t.pick(4),
            3 => 5 + t.pick(8),
            _ => 8 + t.pick(24),
        };
        let neg_all = t.chance(1, 5);
        let mut l = vec![];
        for _ in 0..m {
            l.push((format!("d{}.example", t.pick(pool)), neg_all || t.chance(1, 12)));
        }
        lists.push(l);
    }
    if t.chance(1, 3) && n >= 2 {
        // equal-length lists over the same pool (same bloom union, different members)
        let len = lists[0].len();
        if len > 0 {
            let mut l = vec![];
            for _ in 0..len {
                l.push((format!("d{}.example", t.pick(pool)), false));
            }
            lists[1] = l;
        }
    }
    let types = if t.chance(1, 4) { vec![(t.choose(&["script", "image"]).to_string(), t.chance(1, 3))] } else { vec![] };
    let mut probes = vec![];
    for _ in 0..(4 + t.pick(8)) {
        let k = t.pick(n);
        let src = match t.pick(6) {
            0 => None,
            1 => Some("unrelated.io".to_string()),
            2 => {
                let d = format!("d{}.example", t.pick(pool));
                Some(deep(t, &d))
            }
            _ => {
                // a domain listed by some rule (usually another one), possibly a deep subdomain
                let j = t.pick(n);
                if lists[j].is_empty() {
                    Some(format!("d{}.example", t.pick(pool)))
                } else {
                    let d = lists[j][t.pick(lists[j].len())].0.clone();
                    Some(if t.chance(1, 3) { deep(t, &d) } else { d })
                }
            }
        };
        probes.push((k, src));
    }
    GroupCase { lists, types, exception: t.chance(1, 5), optimize: t.chance(3, 4), probes }
}

/// random combinations the grid does not enumerate: two party options, scheme-only patterns
fn decode_combos(t: &mut Tape) -> OptCase {
    let mut types = vec![];
    for _ in 0..t.pick(3) {
        let sp = if t.chance(1, 4) { t.choose(TYPE_ALIASES) } else { t.choose(TYPE_SPELLINGS) };
        types.push((sp.to_string(), sp != "doc" && t.chance(1, 3)));
    }
    let party = PARTIES[t.pick(PARTIES.len())].map(|s| s.to_string());
    let party2 = if party.is_some() && t.chance(1, 2) { PARTIES[1 + t.pick(PARTIES.len() - 1)].map(|s| s.to_string()) } else { None };
    let scheme_form = match t.pick(4) {
        // known finding C03-ws-pattern-sets-websocket-type: `|ws://` sets the websocket *type* bit,
        // so it is only generated without type options (excluded by construction)
        0 if types.is_empty() => Some("ws".to_string()),
        0 => None,
        1 => Some(t.choose(&["https", "http"]).to_string()),
        _ => None,
    };
    let ast = OptAst { types, party, party2, domains: vec![], important: t.chance(1, 6), exception: scheme_form.is_none() && t.chance(1, 4), modifier: Modifier::None, host_caret_form: scheme_form.is_none() && t.chance(1, 3) };
    let g = grid();
    let mut reqs = vec![];
    for _ in 0..(6 + t.pick(8)) {
        reqs.push(g[t.pick(g.len())].clone());
    }
    OptCase { ast, reqs: Some(reqs), scheme_form, rot: t.pick(4) }
}

pub fn check(ctx: &mut Ctx) {
    ctx.rule = "exhaustive: every type-option set of size <= 2 over the 11 resource types with all sign combinations, all aliases, document combinations and a few triples (x 9 party spellings x exception x {none, csp, removeparam} x {plain pattern, ||host^ form} x important) against the full request grid of 26 request-type strings x 6 schemes x {first, third party} (+ 12 requests whose scheme is written in upper/mixed case); combos: random type sets with one or two (possibly contradictory) party options and scheme-only patterns ('|ws://', '|http://', '|https://') against random grid requests; random: domain=/~domain lists (1-5 entries, duplicates, public-suffix entries) against listed / sub- / parent / look-alike / unrelated / absent sources, including sources up to 13 labels below a listed entry; group: 2-6 rules `/cpath/slotNN$domain=...` that share one token bucket, domain lists of 0-31 entries over a pool of 8-47 domains (1 in 3 with two equal-length lists), optimisation on (3 in 4) or off, probed per rule from domains listed by it or by its neighbours (expected: exactly the probed rule's own list decides). Observed at NetworkFilter::matches, at a single-rule engine (matched / exception / csp / rewritten_url) and at the same engine after a serialize->deserialize round trip. Non-trivial = the reference says the rule applies to the request.".into();
    ctx.assumptions = vec![
        "csp_report maps to no resource-type option; websocket schemes force the websocket type; exceptions also apply to documents".into(),
        "option combinations the parser rejects (csp with types, removeparam exception) are skipped and counted".into(),
    ];
    ctx.probe(
        "C03-ws-pattern-sets-websocket-type",
        serde_json::json!({"rule": "|ws://$other", "request": {"type": "speculative", "url": "ws://sub.target-site.com/cpath/x"}}),
        check_case(
            &OptCase {
                ast: OptAst { types: vec![("other".into(), false)], party: None, party2: None, domains: vec![], important: false, exception: false, modifier: Modifier::None, host_caret_form: false },
                reqs: Some(vec![("speculative".into(), "ws".into(), true, Some("unrelated.org".into()))]),
                scheme_form: Some("ws".into()),
                rot: 0,
            },
            &mut Obs::default(),
        )
        .map_err(|e| e.lines().last().unwrap_or("").to_string()),
    );
    let sets = type_sets();
    let total = sets.len() as u64 * PARTIES.len() as u64 * 2 * 3 * 2 * 2;
    let stride = ctx.tier.pick(4u64, 1u64);
    let seed = ctx.seed;
    let n = total / stride;
    run_indexed(ctx, "grid", n, &|k| nth_ast(((k * stride) + (seed % stride)) % total, &sets).map(|ast| OptCase { ast, reqs: None, scheme_form: None, rot: (k % 3) as usize }), &check_case);
    ctx.exhaustive = false;
    ctx.extra.insert("grid_part".into(), json!({"rules_total": total, "rules_enumerated": n, "stride": stride, "requests_per_rule": grid().len(), "exhaustive": stride == 1}));
    let n = ctx.tier.pick(300_000, 3_000_000);
    drive(ctx, "domains", n, 120, &decode_domains, &check_case);
    let n = ctx.tier.pick(300_000, 3_000_000);
    drive(ctx, "combos", n, 120, &decode_combos, &check_case);
    let n = ctx.tier.pick(150_000, 1_500_000);
    drive(ctx, "group", n, 400, &decode_group, &check_group);
}

pub fn replay(ctx: &mut Ctx, v: &Value) {
    if v.get("check").and_then(|c| c.as_str()) == Some("group") {
        return replay_file::<GroupCase>(ctx, v, &check_group);
    }
    replay_file::<OptCase>(ctx, v, &check_case);
}
