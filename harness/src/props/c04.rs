//! C04 — exception / important / badfilter precedence; rule addition is monotone.

use crate::eng::*;
use crate::gen::{self, NetCase, NetCfg, OptCfg, ReqSpec};
use crate::run::{drive, replay_file, Case, Ctx, Obs, Tape};
use adblock::filters::network::NetworkFilterMaskHelper;
use adblock::lists::{parse_filter, ParsedFilter};
use serde::{Deserialize, Serialize};
use serde_json::Value;
use std::collections::HashSet;

#[derive(Clone, Debug, Serialize, Deserialize)]
pub struct MonoCase {
    pub base: NetCase,
    pub extra: String,
    pub at: usize,
    #[serde(default)]
    pub optimize: bool,
}

impl Case for MonoCase {
    fn smaller(&self) -> Vec<Self> {
        self.base
            .smaller()
            .into_iter()
            .map(|b| MonoCase { at: self.at.min(b.rules.len()), base: b, extra: self.extra.clone(), optimize: self.optimize })
            .collect()
    }
}

fn extra_kind(line: &str) -> Option<bool> {
    // Some(true) = exception, Some(false) = blocking; None = outside the property's domain
    match parse_filter(line, true, std_opts()) {
        Ok(ParsedFilter::Network(f)) => {
            if f.is_badfilter() || f.is_csp() || f.is_removeparam() {
                None
            } else {
                Some(f.is_exception())
            }
        }
        _ => None,
    }
}

pub fn check_mono(c: &MonoCase, obs: &mut Obs) -> Result<(), String> {
    let Some(is_exc) = extra_kind(&c.extra) else {
        obs.exclude("extra-rule-unparsable-or-badfilter/csp/removeparam");
        return Ok(());
    };
    let res = gen::std_resources();
    let mut with = c.base.rules.clone();
    with.insert(c.at.min(with.len()), c.extra.clone());
    let mut e0 = build_engine(&c.base.rules, false, c.optimize, &res);
    let mut e1 = build_engine(&with, false, c.optimize, &res);
    let tag_refs: Vec<&str> = c.base.tags.iter().map(|s| s.as_str()).collect();
    e0.use_tags(&tag_refs);
    e1.use_tags(&tag_refs);
    let xp = parse_network(&[c.extra.clone()]);
    let tags: HashSet<String> = c.base.tags.iter().cloned().collect();
    let parsed = parse_network(&c.base.rules);
    let active = active_rules(&parsed);
    // "adding a rule" taken literally: a live Blocker that received the base list one rule at a
    // time, observed before and after Blocker::add_filter(extra)
    let store = adblock::resources::ResourceStorage::from_resources(res.iter().cloned());
    let mut refused = vec![];
    let mut live = incremental_blocker(&c.base.rules, std_opts(), &c.base.tags, &mut refused);
    let mut live_before: Vec<Option<adblock::blocker::BlockerResult>> = vec![];
    if let Some(b) = &mut live {
        for r in &c.base.reqs {
            live_before.push(mk_request(r).map(|q| b.check(&q, &store)));
        }
        if let Some(x) = xp.first() {
            let _ = b.add_filter(x.f.clone());
        }
        obs.label("live-add_filter");
    }
    for (ri, r) in c.base.reqs.iter().enumerate() {
        let Some(req) = mk_request(r) else { continue };
        obs.inner_evals += 1;
        let b0 = e0.check_network_request(&req);
        let b1 = e1.check_network_request(&req);
        if let (Some(b), Some(Some(l0))) = (&live, live_before.get(ri)) {
            let l1 = b.check(&req, &store);
            if is_exc && l1.matched && !l0.matched {
                return Err(format!("Blocker::add_filter of exception {:?} turned allowed request {:?} into blocked", c.extra, r));
            }
            if !is_exc && l0.matched && !l1.matched {
                return Err(format!("Blocker::add_filter of blocking rule {:?} turned blocked request {:?} into allowed", c.extra, r));
            }
            if l0.matched != b0.matched || l0.important != b0.important || l0.exception.is_some() != b0.exception.is_some() {
                return Err(format!(
                    "request {:?}: a Blocker that received the rules one at a time says matched/important/exception = {}/{}/{}, the engine built from the list says {}/{}/{}",
                    r, l0.matched, l0.important, l0.exception.is_some(), b0.matched, b0.important, b0.exception.is_some()
                ));
            }
        }
        let x_hits = xp.iter().any(|p| rule_matches(&p.f, &req));
        if x_hits {
            obs.nontrivial = true;
            obs.label(if is_exc { "extra-exception-hits" } else { "extra-blocker-hits" });
            if b0.matched != b1.matched {
                obs.label("verdict-flipped");
            }
        }
        if is_exc && b1.matched && !b0.matched {
            return Err(format!("adding exception {:?} turned allowed request {:?} into blocked", c.extra, r));
        }
        if !is_exc && b0.matched && !b1.matched {
            return Err(format!("adding blocking rule {:?} turned blocked request {:?} into allowed", c.extra, r));
        }
        // blocked(L, r) == spec(L, r)
        let hits = hits_of(&active, &req);
        let spec = combine(&hits, &tags, &req, &r.url, &res);
        if spec.matched != b0.matched || spec.important != b0.important || spec.exception != b0.exception.is_some() {
            return Err(format!(
                "request {:?}: spec matched/important/exception = {}/{}/{} engine = {}/{}/{}",
                r, spec.matched, spec.important, spec.exception, b0.matched, b0.important, b0.exception.is_some()
            ));
        }
    }
    Ok(())
}

pub fn decode_mono(t: &mut Tape) -> MonoCase {
    let base = gen::net_case(t, &NetCfg { max_rules: 24, ..Default::default() });
    // the extra rule is cut from one of the request URLs so that it often matches
    let pool: Vec<String> = base.reqs.iter().map(|r| r.url.clone()).filter(|u| u.contains("://")).collect();
    let cfg = OptCfg { allow_badfilter: false, ..Default::default() };
    let extra = gen::net_rule(t, &pool, &[], &cfg);
    let at = t.pick(base.rules.len() + 1);
    MonoCase { base, extra, at, optimize: t.chance(1, 2) }
}

/// a large same-shape group with one of its rules taken out and added back as the extra rule
pub fn decode_mono_big(t: &mut Tape) -> MonoCase {
    let mut base = gen::big_group_case(t);
    let k = t.pick(base.rules.len());
    let extra = base.rules.remove(k);
    let at = t.pick(base.rules.len() + 1);
    MonoCase { base, extra, at, optimize: !t.chance(1, 4) }
}

// ---------------------------------------------------------------------------------------------
// badfilter

#[derive(Clone, Debug, Serialize, Deserialize)]
pub struct BadCase {
    /// the rule y
    pub rule: String,
    /// the candidate canceller (text without `badfilter`)
    pub other: String,
    /// true when `other` was built as a re-spelling of `rule` (same pattern, same options)
    pub twin: bool,
    pub reqs: Vec<ReqSpec>,
}

impl Case for BadCase {
    fn smaller(&self) -> Vec<Self> {
        let mut v = vec![];
        if self.reqs.len() > 1 {
            for i in 0..self.reqs.len() {
                let mut c = self.clone();
                c.reqs = vec![self.reqs[i].clone()];
                v.push(c);
            }
        }
        v
    }
}

fn with_badfilter(line: &str) -> String {
    if line.rfind('$').is_some() { format!("{},badfilter", line) } else { format!("{}$badfilter", line) }
}

fn observe(rules: &[String], reqs: &[ReqSpec]) -> Vec<(Option<Verdict>, Option<String>)> {
    let res = gen::std_resources();
    let e = build_engine(rules, false, false, &res);
    reqs.iter()
        .map(|r| match mk_request(r) {
            Some(q) => (Some(Verdict::of(&e.check_network_request(&q))), e.get_csp_directives(&q)),
            None => (None, None),
        })
        .collect()
}

pub fn check_bad(c: &BadCase, obs: &mut Obs) -> Result<(), String> {
    // domain: both lines parse as network rules, neither carries badfilter/tag itself
    let py = parse_network(&[c.rule.clone()]);
    let pz = parse_network(&[c.other.clone()]);
    if py.len() != 1 || pz.len() != 1 || py[0].f.is_badfilter() || pz[0].f.is_badfilter() || py[0].tag.is_some() || pz[0].tag.is_some() {
        obs.exclude("unparsable-or-tagged-pair");
        return Ok(());
    }
    let z_bad = with_badfilter(&c.other);
    if parse_network(&[z_bad.clone()]).len() != 1 {
        obs.exclude("badfilter-spelling-unparsable");
        return Ok(());
    }
    obs.inner_evals += c.reqs.len() as u64;
    let empty = observe(&[], &c.reqs);
    let only_y = observe(&[c.rule.clone()], &c.reqs);
    let only_z0 = observe(&[c.other.clone()], &c.reqs);
    let y_and_bad = observe(&[c.rule.clone(), z_bad.clone()], &c.reqs);
    let bad_alone = observe(&[z_bad.clone()], &c.reqs);
    // (d) a badfilter rule never matches anything
    if bad_alone != empty {
        return Err(format!("badfilter rule {:?} alone changes a verdict: {:?}", z_bad, bad_alone));
    }
    let y_visible = only_y != empty;
    if c.twin {
        if y_visible {
            obs.nontrivial = true;
            obs.label("twin-cancels-visible-rule");
        }
        if y_and_bad != empty {
            return Err(format!(
                "{:?} is a re-spelling of {:?} with badfilter but does not cancel it: {:?}",
                z_bad, c.rule, y_and_bad
            ));
        }
    } else if only_y != only_z0 {
        // some probe distinguishes y from z-without-badfilter => they are not the same rule
        obs.nontrivial = true;
        obs.label("near-miss-distinguished");
        if y_and_bad != only_y {
            return Err(format!(
                "{:?} differs observably from {:?} but its badfilter form disables/changes it: alone {:?} with badfilter {:?}",
                c.other, c.rule, only_y, y_and_bad
            ));
        }
    } else {
        obs.label("near-miss-undistinguished");
    }
    Ok(())
}

const ALIASES: &[(&str, &str)] = &[
    ("xmlhttprequest", "xhr"), ("stylesheet", "css"), ("subdocument", "frame"), ("third-party", "3p"),
    ("first-party", "1p"), ("document", "doc"), ("domain=", "from="), ("generichide", "ghide"),
    ("object", "object-subrequest"), ("ping", "beacon"),
];

fn respell(t: &mut Tape, line: &str) -> String {
    let Some(i) = line.rfind('$') else { return line.to_string() };
    let (pat, opts) = (&line[..i], &line[i + 1..]);
    let mut os: Vec<String> = opts.split(',').map(|s| s.to_string()).collect();
    for o in os.iter_mut() {
        for (a, b) in ALIASES {
            if t.chance(1, 2) {
                let neg = o.starts_with('~');
                let body = o.trim_start_matches('~').to_string();
                if a.ends_with('=') {
                    if let Some(rest) = body.strip_prefix(a) {
                        *o = format!("{}{}{}", if neg { "~" } else { "" }, b, rest);
                    } else if let Some(rest) = body.strip_prefix(b) {
                        *o = format!("{}{}{}", if neg { "~" } else { "" }, a, rest);
                    }
                } else if body == *a {
                    *o = format!("{}{}", if neg { "~" } else { "" }, b);
                } else if body == *b {
                    *o = format!("{}{}", if neg { "~" } else { "" }, a);
                }
            }
        }
        // permute a domain list
        if o.starts_with("domain=") || o.starts_with("from=") {
            let (k, v) = o.split_once('=').unwrap();
            let mut ds: Vec<&str> = v.split('|').collect();
            if ds.len() > 1 {
                let r = t.pick(ds.len());
                ds.rotate_left(r);
            }
            // repeating an entry does not change the set of domains
            if t.chance(1, 3) {
                let d = ds[t.pick(ds.len())];
                let at = t.pick(ds.len() + 1);
                ds.insert(at, d);
            }
            *o = format!("{}={}", k, ds.join("|"));
        }
    }
    // a repeated domain=/from= option is order-sensitive (the last one wins): keep the order then
    let n_dom = os.iter().filter(|o| o.starts_with("domain=") || o.starts_with("from=")).count();
    if os.len() > 1 && n_dom <= 1 {
        let r = t.pick(os.len());
        os.rotate_left(r);
    }
    format!("{}${}", pat, os.join(","))
}

fn near_miss(t: &mut Tape, line: &str) -> String {
    let (pat, opts) = match line.rfind('$') {
        Some(i) => (line[..i].to_string(), Some(line[i + 1..].to_string())),
        None => (line.to_string(), None),
    };
    let join = |p: &str, o: &Option<String>| match o {
        Some(o) if !o.is_empty() => format!("{}${}", p, o),
        _ => p.to_string(),
    };
    if let Some(o) = &opts {
        if let Some(i) = o.find("domain=") {
            let vend = o[i..].find(',').map(|k| i + k).unwrap_or(o.len());
            let list: Vec<&str> = o[i + 7..vend].split('|').collect();
            if list.len() >= 10 && t.chance(2, 3) {
                let newlist: Vec<String> = if t.chance(1, 2) {
                    list.iter().enumerate().map(|(k, d)| if d.starts_with('~') { format!("~other{}.org", k) } else { format!("other{}.org", k) }).collect()
                } else {
                    let k = t.pick(list.len());
                    list.iter().enumerate().map(|(j, d)| if j == k { format!("{}x", d) } else { d.to_string() }).collect()
                };
                return join(&pat, &Some(format!("{}domain={}{}", &o[..i], newlist.join("|"), &o[vend..])));
            }
        }
    }
    if let Some(o) = &opts {
        // redirect=R and redirect-rule=R are different options (the first also blocks)
        if t.chance(1, 2) {
            if let Some(i) = o.find("redirect-rule=") {
                return join(&pat, &Some(format!("{}redirect={}", &o[..i], &o[i + 14..])));
            } else if let Some(i) = o.find("redirect=") {
                return join(&pat, &Some(format!("{}redirect-rule={}", &o[..i], &o[i + 9..])));
            }
        }
    }
    match t.pick(9) {
        0 => {
            // shift one character across the hostname/path boundary of ||host/path
            if let Some(rest) = pat.strip_prefix("||").or_else(|| pat.strip_prefix("@@||")) {
                if let Some(s) = rest.find('/') {
                    if s + 2 <= rest.len() && rest.is_char_boundary(s + 2) && rest.len() > s + 2 {
                        let (h, p) = rest.split_at(s);
                        let moved = &p[p.len() - 1..];
                        if p.is_char_boundary(p.len() - 1) && moved.chars().all(|c| c.is_ascii_alphanumeric()) {
                            let pre = if pat.starts_with("@@") { "@@||" } else { "||" };
                            return join(&format!("{}{}{}{}", pre, moved, h, &p[..p.len() - 1]), &opts);
                        }
                    }
                }
            }
            join(&format!("{}x", pat), &opts)
        }
        1 => {
            // domain=a <-> domain=~a
            if let Some(o) = &opts {
                if let Some(i) = o.find("domain=") {
                    let v = &o[i + 7..];
                    let flipped = if let Some(s) = v.strip_prefix('~') { s.to_string() } else { format!("~{}", v) };
                    return join(&pat, &Some(format!("{}domain={}", &o[..i], flipped)));
                }
            }
            join(&pat, &Some(match &opts { Some(o) => format!("{},domain=~a.com", o), None => "domain=~a.com".into() }))
        }
        2 => {
            // move a character between a modifier value and the start of the pattern
            if let Some(o) = &opts {
                for key in ["csp=", "redirect=", "redirect-rule=", "removeparam="] {
                    if let Some(i) = o.find(key) {
                        let vstart = i + key.len();
                        let vend = o[vstart..].find(',').map(|k| vstart + k).unwrap_or(o.len());
                        let body = pat.trim_start_matches("@@");
                        if let Some(ch) = body.chars().next() {
                            if ch.is_ascii_alphanumeric() {
                                let new_pat = format!("{}{}", &pat[..pat.len() - body.len()], &body[1..]);
                                let new_o = format!("{}{}{}", &o[..vend], ch, &o[vend..]);
                                return join(&new_pat, &Some(new_o));
                            }
                        }
                    }
                }
            }
            join(&format!("{}a", pat), &opts)
        }
        3 => {
            // change one pattern character
            let mut cs: Vec<char> = pat.chars().collect();
            if cs.is_empty() {
                return join("x", &opts);
            }
            let i = t.pick(cs.len());
            cs[i] = if cs[i] == 'a' { 'b' } else { 'a' };
            join(&cs.into_iter().collect::<String>(), &opts)
        }
        4 => {
            // add an option
            let add = t.choose(&["script", "~script", "third-party", "important", "image", "1p", "document"]);
            join(&pat, &Some(match &opts { Some(o) => format!("{},{}", o, add), None => add.to_string() }))
        }
        5 => {
            // remove an option
            match &opts {
                Some(o) => {
                    let mut os: Vec<&str> = o.split(',').collect();
                    let i = t.pick(os.len());
                    os.remove(i);
                    join(&pat, &Some(os.join(",")))
                }
                None => join(&format!("{}|", pat), &opts),
            }
        }
        6 => {
            // toggle exception
            if let Some(p) = pat.strip_prefix("@@") { join(p, &opts) } else { join(&format!("@@{}", pat), &opts) }
        }
        7 => {
            // toggle an anchor
            if let Some(p) = pat.strip_suffix('|') { join(p, &opts) } else { join(&format!("{}|", pat), &opts) }
        }
        _ => {
            // negate a type option
            match &opts {
                Some(o) => {
                    let mut os: Vec<String> = o.split(',').map(|s| s.to_string()).collect();
                    let i = t.pick(os.len());
                    if !os[i].contains('=') && os[i] != "important" && os[i] != "match-case" && os[i] != "document" && os[i] != "doc" {
                        os[i] = if let Some(s) = os[i].strip_prefix('~') { s.to_string() } else { format!("~{}", os[i]) };
                    } else {
                        os.push("font".into());
                    }
                    join(&pat, &Some(os.join(",")))
                }
                None => join(&pat, &Some("~image".into())),
            }
        }
    }
}

pub fn decode_bad(t: &mut Tape) -> BadCase {
    let npool = 1 + t.pick(2);
    let mut pool = vec![];
    let mut pool_hosts = vec![];
    for _ in 0..npool {
        let p = gen::url_parts(t);
        pool_hosts.push((p.host.clone(), p.reg.clone()));
        pool.push(p.render());
    }
    let cfg = OptCfg { allow_tag: false, allow_badfilter: false, ..Default::default() };
    let mut rule = gen::net_rule(t, &pool, &pool_hosts, &cfg);
    if t.chance(1, 8) {
        // a long initiator-domain list (thresholds such as 16 entries)
        let n = [15usize, 16, 17, 18, 32, 33, 40][t.pick(7)];
        let neg = t.chance(1, 4);
        let ds: Vec<String> = (0..n).map(|i| format!("{}site{}.com", if neg { "~" } else { "" }, i)).collect();
        let base = rule.rfind('$').map(|i| rule[..i].to_string()).unwrap_or(rule.clone());
        rule = format!("{}$domain={}", base, ds.join("|"));
    }
    let twin = t.chance(1, 2);
    let other = if twin { respell(t, &rule) } else { near_miss(t, &rule) };
    let mut reqs = vec![];
    for u in &pool {
        // probes on every interesting axis: type, party, scheme
        for (ty, src) in [("script", ""), ("image", "same"), ("document", "other"), ("xhr", "same"), ("font", "other"), ("subdocument", "same")] {
            let source = match src {
                "same" => gen::source_for(&mut Tape::zero_filled(&[0]), u, &[]),
                "other" => "https://a.com/".to_string(),
                _ => "https://sub.b.com/".to_string(),
            };
            reqs.push(ReqSpec { url: u.clone(), source, rtype: ty.to_string() });
        }
        reqs.push(ReqSpec { url: gen::perturb(t, u), source: "https://x.a.com/".into(), rtype: "script".into() });
        let alt = if u.starts_with("https") { u.replacen("https", "http", 1) } else { u.replacen("http", "https", 1) };
        reqs.push(ReqSpec { url: alt, source: "https://b.com/".into(), rtype: "script".into() });
        reqs.push(ReqSpec { url: format!("{}?utm=1&id=2", u.split('#').next().unwrap_or(u)), source: String::new(), rtype: "document".into() });
    }
    for _ in 0..2 {
        reqs.push(gen::request(t, &pool, &pool_hosts));
    }
    if rule.contains("site0.com") {
        for u in pool.iter().take(2) {
            for src in ["https://site0.com/", "https://site16.com/", "https://sub.site3.com/", "https://other0.org/", "https://other16.org/"] {
                reqs.push(ReqSpec { url: u.clone(), source: src.to_string(), rtype: "script".into() });
            }
        }
    }
    BadCase { rule, other, twin, reqs }
}

pub fn check(ctx: &mut Ctx) {
    ctx.rule = "mono-big: a same-shape group of 2-800 rules (sizes around 16/32/64/128/256/512) with one rule taken out and added back as x, optimisation mostly on, one request per rule; mono: list L (1-24 rules, C01 generator, optimisation on/off) + extra rule x cut from one of the request URLs, inserted at a generated index; engines for L and L+x compared on 1-8 requests (x exception => blocked(L+x) implies blocked(L); x blocking => blocked(L) implies blocked(L+x)); blocked/important/exception also compared with the rule-by-rule spec; when L has no badfilter rule the same two implications are checked on a live Blocker that received L one rule at a time, before and after Blocker::add_filter(x), and its answers for L must equal the engine's. Non-trivial = x itself matches the request. bad: rule y + rule z that is either a re-spelling of y (aliases, option order, domain order, repeated domain entries) or y with one semantic atom changed (char moved across host/path boundary, domain<->~domain, char moved between modifier value and pattern, pattern char, option added/removed/negated, @@ toggled, anchor toggled); engines [y], [z], [y, z$badfilter], [z$badfilter], [] observed on ~20 probes per URL. Non-trivial = twin cancelling a rule that visibly does something, or near-miss that some probe distinguishes from y.".into();
    ctx.assumptions = vec![
        "tag differences between a rule and its badfilter twin are outside the domain (no tags generated for badfilter pairs)".into(),
        "a near-miss that no probe distinguishes from y is counted as undetermined, not checked".into(),
    ];
    let n = ctx.tier.pick(200_000, 2_500_000);
    drive(ctx, "mono", n, 900, &decode_mono, &check_mono);
    let n = ctx.tier.pick(160, 6_000);
    drive(ctx, "mono-big", n, 120, &decode_mono_big, &check_mono);
    let n = ctx.tier.pick(150_000, 2_500_000);
    drive(ctx, "bad", n, 300, &decode_bad, &check_bad);
}

pub fn replay(ctx: &mut Ctx, v: &Value) {
    match v.get("check").and_then(|c| c.as_str()) {
        Some("bad") => replay_file::<BadCase>(ctx, v, &check_bad),
        _ => replay_file::<MonoCase>(ctx, v, &check_mono),
    }
}
