//! C15 — injected CSP is the union of matching csp rules minus excepted directives.

use crate::eng::*;
use crate::gen::{self, NetCase, ReqSpec};
use crate::run::{drive, replay_file, Ctx, Obs, Tape};
use adblock::filters::network::NetworkFilterMaskHelper;
use serde_json::Value;
use std::collections::HashSet;

pub fn check_case(c: &NetCase, obs: &mut Obs) -> Result<(), String> {
    let res = gen::std_resources();
    let mut engine = build_engine(&c.rules, false, false, &res);
    // rule order must not matter: a second engine from the reversed list
    let mut rev = c.rules.clone();
    rev.reverse();
    let mut engine_rev = build_engine(&rev, false, true, &res);
    let tr: Vec<&str> = c.tags.iter().map(|s| s.as_str()).collect();
    engine.use_tags(&tr);
    engine_rev.use_tags(&tr);
    // the same rules through two secondary entry points: added one at a time to a Blocker, and
    // loaded from serialized bytes by an engine that enabled its tags beforehand
    let mut refused = vec![];
    let incremental = incremental_blocker(&c.rules, std_opts(), &c.tags, &mut refused);
    let bytes = build_engine(&c.rules, false, false, &res).serialize_raw().map_err(|e| format!("serialize: {:?}", e))?;
    let mut loaded = adblock::Engine::new(true);
    loaded.use_tags(&tr);
    loaded.deserialize(&bytes).map_err(|e| format!("deserialize of own bytes: {:?}", e))?;
    let tags: HashSet<String> = c.tags.iter().cloned().collect();
    let parsed = parse_network(&c.rules);
    // the directive a csp rule carries is the text after `csp=` up to the next ',' as written;
    // `csp` and `csp=` (no value) carry none - read from the rule text, independently of the parser
    for p in &parsed {
        if !p.f.is_csp() {
            continue;
        }
        let opts = p.line.trim().rsplit_once('$').map(|x| x.1).unwrap_or("");
        let mut written: Option<Option<String>> = None;
        for o in opts.split(',') {
            if o == "csp" {
                written = Some(None);
            } else if let Some(v) = o.strip_prefix("csp=") {
                written = Some(if v.is_empty() { None } else { Some(v.to_string()) });
            }
        }
        if let Some(w) = written {
            if p.f.modifier_option != w {
                return Err(format!("rule {:?}: directive as written {:?}, parsed as {:?}", p.line, w, p.f.modifier_option));
            }
        }
    }
    let active = active_rules(&parsed);
    for r in &c.reqs {
        let Some(req) = mk_request(r) else { continue };
        obs.inner_evals += 1;
        let hits = hits_of(&active, &req);
        let spec = combine_csp(&hits, &tags, &req);
        let got = engine.get_csp_directives(&req);
        let got_set = got.as_ref().map(|s| split_csp(s, &[]));
        let csp_hits: Vec<&&Parsed> = hits.iter().filter(|p| p.f.is_csp()).collect();
        // the party restriction of a csp rule, re-read from its text wherever the option stands
        for p in &csp_hits {
            let opts = p.line.trim().rsplit_once('$').map(|x| x.1).unwrap_or("");
            for o in opts.split(',') {
                let need_third = match o {
                    "3p" | "third-party" | "~1p" | "~first-party" => Some(true),
                    "1p" | "first-party" | "~3p" | "~third-party" => Some(false),
                    _ => None,
                };
                if let Some(nt) = need_third {
                    if req.is_third_party != nt {
                        return Err(format!("request {:?} (third-party={}): csp rule {:?} is applied although its text restricts it to {} requests", r, req.is_third_party, p.line, if nt { "third-party" } else { "first-party" }));
                    }
                }
            }
        }
        let n_en = csp_hits.iter().filter(|p| !p.f.is_exception()).filter_map(|p| p.f.modifier_option.clone()).collect::<HashSet<_>>().len();
        let n_dis = csp_hits.iter().filter(|p| p.f.is_exception()).count();
        let blanket = csp_hits.iter().any(|p| p.f.is_exception() && p.f.modifier_option.is_none());
        if (n_en >= 2 && n_dis >= 1) || blanket {
            obs.nontrivial = true;
        }
        if spec.is_some() {
            obs.label("policy");
        }
        if spec.as_ref().map_or(false, |s| s.len() >= 17) {
            obs.label("policy-of-17+-directives");
        }
        if spec.as_ref().map_or(false, |s| s.len() >= 8) {
            obs.label("policy-of-8+-directives");
        }
        if c.rules.len() > 20 {
            obs.label("big-list");
        }
        if blanket {
            obs.label("blanket-exception");
        }
        if !csp_hits.is_empty() && spec.is_none() {
            obs.label("all-excepted-or-wrong-type");
        }
        if got_set != spec {
            return Err(format!("request {:?}: csp {:?}, expected set {:?} (matching csp rules {:?})", r, got, spec, csp_hits.iter().map(|p| p.line.as_str()).collect::<Vec<_>>()));
        }
        // no duplicates, no empty parts in the joined string
        if let Some(s) = &got {
            let parts: Vec<&str> = s.split(',').collect();
            let uniq: HashSet<&str> = parts.iter().cloned().collect();
            if uniq.len() != parts.len() || parts.iter().any(|p| p.is_empty()) {
                return Err(format!("request {:?}: csp string {:?} has duplicate or empty parts", r, s));
            }
        }
        let got_rev = engine_rev.get_csp_directives(&req).map(|s| split_csp(&s, &[]));
        if got_rev != got_set {
            return Err(format!("request {:?}: csp depends on rule order / optimisation: {:?} vs {:?}", r, got_set, got_rev));
        }
        if let Some(b) = &incremental {
            let got_inc = b.get_csp_directives(&req).map(|s| split_csp(&s, &[]));
            if got_inc != spec {
                return Err(format!("request {:?}: rules added one at a time with Blocker::add_filter give csp {:?}, expected {:?} (matching csp rules {:?})", r, got_inc, spec, csp_hits.iter().map(|p| p.line.as_str()).collect::<Vec<_>>()));
            }
        }
        let got_loaded = loaded.get_csp_directives(&req).map(|s| split_csp(&s, &[]));
        if got_loaded != spec {
            return Err(format!("request {:?}: an engine that enabled tags {:?} and then loaded the serialized rules gives csp {:?}, expected {:?}", r, c.tags, got_loaded, spec));
        }
    }
    Ok(())
}

pub fn decode(t: &mut Tape) -> NetCase {
    let pats = ["||x.com^", "||sub.x.com^", "/page", "*", "|https://", "||y.org^", "/page.html|"];
    let dirs = ["script-src 'none'", "script-src 'self'", "img-src *", "worker-src 'none'", "default-src 'self'; report-uri /r", "frame-src 'none'", "script-src 'sha256-47DEQpj8HBSa+/TImW+5JCeuQeRkm5NMpJWZG3hSuFU=' 'self'", "report-uri https://r.example/c?id=a", "report-uri https://r.example/c?id=b"];
    let mut rules = vec![];
    let nrules = if t.chance(1, 30) { 20 + t.pick(120) } else { 1 + t.pick(10) };
    // long-domain mode: csp rules restricted to initiator lists of one length over a small pool
    let long_domains = if t.chance(1, 6) { Some((1 + t.pick(24), 8 + t.pick(40))) } else { None };
    for k in 0..nrules {
        let p = t.choose(&pats);
        // big lists: fewer exceptions and hardly any blanket exception, so that a request really
        // collects dozens of distinct directives (measured: label policy-of-17+-directives)
        let big = nrules > 12;
        let ex = if big { t.chance(1, 8) } else { t.chance(1, 3) };
        let mut opts = vec![];
        if ex && (if big { t.chance(1, 12) } else { t.chance(1, 3) }) {
            opts.push(if t.chance(1, 3) { "csp=".to_string() } else { "csp".to_string() });
        } else if t.chance(1, 40) {
            opts.push("csp=".to_string());
        } else {
            if big && t.chance(3, 4) {
                opts.push(format!("csp=x-src d{}", k % 64));
            } else {
                opts.push(format!("csp={}", t.choose(&dirs)));
            }
        }
        if let (Some((len, pool)), true) = (long_domains, t.chance(3, 4)) {
            let neg = t.chance(1, 8);
            let l: Vec<String> = (0..len).map(|_| format!("{}s{}.org", if neg { "~" } else { "" }, t.pick(pool))).collect();
            opts.push(format!("domain={}", l.join("|")));
        } else if t.chance(1, 4) {
            opts.push(t.choose(&["domain=site.org", "domain=~site.org", "3p", "1p", "important"]).to_string());
        }
        if t.chance(1, 5) {
            opts.push(format!("tag={}", t.choose(gen::TAGS)));
        }
        // option order carries no meaning
        if opts.len() > 1 && t.chance(1, 2) {
            opts.rotate_left(1);
        }
        rules.push(format!("{}{}${}", if ex { "@@" } else { "" }, p, opts.join(",")));
    }
    for _ in 0..t.pick(3) {
        rules.push(t.choose(&["||x.com^", "@@||x.com^", "||x.com^$csp=script-src 'none',script", "@@||x.com^$document", "||x.com^$important"]).to_string());
    }
    let mut tags = vec![];
    for tg in gen::TAGS {
        if t.chance(1, 2) {
            tags.push(tg.to_string());
        }
    }
    let mut reqs = vec![];
    for _ in 0..(1 + t.pick(5)) {
        let u = format!("https://{}{}", t.choose(&["x.com", "sub.x.com", "y.org", "z.net"]), t.choose(&["/page", "/page.html", "/", "/other"]));
        reqs.push(ReqSpec { url: u, source: t.choose(&["https://site.org/", "https://x.com/", ""]).to_string(), rtype: t.choose(gen::REQ_TYPES).to_string() });
    }
    if let Some((_, pool)) = long_domains {
        for r in reqs.iter_mut() {
            if t.chance(3, 4) {
                r.source = format!("https://{}s{}.org/", t.choose(&["", "www.", "a.b."]), t.pick(pool));
            }
        }
    }
    // bias towards document types
    for r in reqs.iter_mut() {
        if t.chance(1, 2) {
            r.rtype = t.choose(&["document", "subdocument", "main_frame", "sub_frame"]).to_string();
        }
    }
    NetCase { rules, tags, reqs }
}

pub fn check(ctx: &mut Ctx) {
    ctx.rule = "1-10 $csp= rules / @@..$csp= / blanket @@..$csp (also spelled `$csp=` with an empty value) on 7 overlapping patterns with 6 directives (duplicates frequent), optional domain/party/important/tag options (1 case in 6: domain= lists of one length 1-24 over a pool of 8-47 initiators, requests from that pool), plus ordinary rules; tag subset; 1-5 requests over all request-type strings (half forced to document types). Oracle: non-document types => None; a matching active blanket exception => None; otherwise set(enabled) minus set(disabled), None when empty; compared as the set of comma-separated parts, which must be duplicate-free; the same query on an engine built from the reversed list with optimisation on must give the same set, and so must a Blocker that received the rules one at a time (add_filter) and an engine that enabled the tags first and then loaded the serialized rules. Non-trivial = >= 2 distinct directives enabled and >= 1 exception, or a blanket exception.".into();
    ctx.assumptions = vec!["which csp rules match is decided by NetworkFilter::matches; directives contain no comma (the option grammar cannot express one)".into()];
    let n = ctx.tier.pick(800_000, 6_000_000);
    drive(ctx, "csp", n, 300, &decode, &check_case);
}

pub fn replay(ctx: &mut Ctx, v: &Value) {
    replay_file::<NetCase>(ctx, v, &check_case);
}
