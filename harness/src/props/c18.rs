//! C18 — scriptlet injection respects permissions and encodes arguments safely.

use crate::gen;
use crate::run::{drive, replay_file, run_indexed, Case, Ctx, Obs, Tape};
use adblock::lists::{FilterSet, ParseOptions};
use adblock::request::Request;
use adblock::resources::{MimeType, PermissionMask, Resource, ResourceType};
use adblock::Engine;
use serde::{Deserialize, Serialize};
use serde_json::{json, Value};

fn res(name: &str, kind: ResourceType, body: &str, deps: &[String], perm: u8) -> Resource {
    Resource {
        name: name.to_string(),
        aliases: vec![],
        kind,
        content: gen::b64(body),
        dependencies: deps.to_vec(),
        permission: PermissionMask::from_bits(perm),
    }
}

// ---- exhaustive permission grid ------------------------------------------------------------------

#[derive(Clone, Debug, Serialize, Deserialize)]
pub struct PermCase {
    pub list_perm: u8,
    /// None = all 256 resource permissions
    pub res_perm: Option<u8>,
}
impl Case for PermCase {}

pub fn check_perm(c: &PermCase, obs: &mut Obs) -> Result<(), String> {
    let mut fs = FilterSet::new(false);
    fs.add_filters(
        &["example.com##+js(scr)".to_string(), "||redir.example.com^$redirect=scr.js".to_string()],
        ParseOptions { permissions: PermissionMask::from_bits(c.list_perm), ..Default::default() },
    );
    let mut e = Engine::from_filter_set(fs, true);
    let req = Request::new("https://redir.example.com/x.js", "https://example.com/", "script").unwrap();
    let range: Vec<u8> = match c.res_perm {
        Some(r) => vec![r],
        None => (0..=255u8).collect(),
    };
    for r in range {
        obs.inner_evals += 1;
        e.use_resources(vec![res("scr.js", ResourceType::Mime(MimeType::ApplicationJavascript), "function scr() { /*MARK-scr*/ }", &[], r)]);
        let js = e.url_cosmetic_resources("https://example.com/").injected_script;
        let injected = js.contains("MARK-scr");
        let want = (r & !c.list_perm) == 0;
        let fail = |m: String| Err(format!("REPLAY_CASE:{}\n{}", serde_json::to_string(&PermCase { list_perm: c.list_perm, res_perm: Some(r) }).unwrap(), m));
        if injected != want {
            return fail(format!("resource permission {:#010b}, list permission {:#010b}: injected={}, expected {}", r, c.list_perm, injected, want));
        }
        let redirect = e.check_network_request(&req).redirect;
        if redirect.is_some() != (r == 0) {
            return fail(format!("resource permission {:#010b}: served as redirect = {}", r, redirect.is_some()));
        }
        if r != 0 && r != 255 && c.list_perm != 0 && c.list_perm != 255 {
            obs.inner_nontrivial.push(((c.list_perm as u64) << 8) | r as u64);
        }
    }
    obs.nontrivial = true;
    Ok(())
}

// ---- dependency graphs ---------------------------------------------------------------------------

#[derive(Clone, Debug, Serialize, Deserialize)]
pub struct Node {
    pub name: String,
    /// 0 = application/javascript (function style), 1 = fn/javascript, 2 = template, 3 = application/javascript (template style)
    pub kind: u8,
    pub perm: u8,
    pub deps: Vec<String>,
}

#[derive(Clone, Debug, Serialize, Deserialize)]
pub struct GraphCase {
    pub nodes: Vec<Node>,
    /// (scriptlet name requested, permission of the list requesting it)
    pub requests: Vec<(String, u8)>,
}
impl Case for GraphCase {
    fn smaller(&self) -> Vec<Self> {
        let mut v = vec![];
        for i in 0..self.requests.len() {
            let mut c = self.clone();
            c.requests.remove(i);
            v.push(c);
        }
        for i in 0..self.nodes.len() {
            let mut c = self.clone();
            c.nodes.remove(i);
            v.push(c);
        }
        for i in 0..self.nodes.len() {
            for k in 0..self.nodes[i].deps.len() {
                let mut c = self.clone();
                c.nodes[i].deps.remove(k);
                v.push(c);
            }
        }
        v
    }
}

fn node_resource(n: &Node) -> Resource {
    let fname = n.name.trim_end_matches(".js").replace(['.', '-'], "_");
    let (kind, body) = match n.kind {
        0 => (ResourceType::Mime(MimeType::ApplicationJavascript), format!("function {}() {{ /*NODE-{}*/ }}", fname, n.name)),
        1 => (ResourceType::Mime(MimeType::FnJavascript), format!("function {}() {{ /*NODE-{}*/ }}", fname, n.name)),
        2 => (ResourceType::Template, format!("/*NODE-{}*/ {{{{1}}}}", n.name)),
        _ => (ResourceType::Mime(MimeType::ApplicationJavascript), format!("(function(){{ /*NODE-{}*/ }})();", n.name)),
    };
    res(&n.name, kind, &body, &n.deps, n.perm)
}

/// transitive dependencies (by name) of `start`'s dependency list; None if one is missing
fn closure<'a>(nodes: &'a [Node], start: &'a Node) -> Option<Vec<&'a Node>> {
    let mut out: Vec<&Node> = vec![];
    let mut stack: Vec<&str> = start.deps.iter().map(|s| s.as_str()).collect();
    while let Some(d) = stack.pop() {
        if out.iter().any(|n| n.name == d) {
            continue;
        }
        // the store keeps the first resource added under a name
        let n = nodes.iter().find(|n| n.name == d)?;
        out.push(n);
        for dd in &n.deps {
            stack.push(dd);
        }
    }
    Some(out)
}

pub fn check_graph(c: &GraphCase, obs: &mut Obs) -> Result<(), String> {
    // the store rejects later resources whose name is already taken: keep the first of each name
    let mut uniq: Vec<Node> = vec![];
    for n in &c.nodes {
        // fn/javascript and application/javascript support dependencies; templates do not carry a mime => allowed
        if !uniq.iter().any(|u| u.name == n.name) {
            uniq.push(n.clone());
        }
    }
    let mut fs = FilterSet::new(false);
    for (name, perm) in &c.requests {
        fs.add_filters(&[format!("example.com##+js({})", name.trim_end_matches(".js"))], ParseOptions { permissions: PermissionMask::from_bits(*perm), ..Default::default() });
    }
    let mut e = Engine::from_filter_set(fs, false);
    e.use_resources(uniq.iter().map(node_resource));
    let js = e.url_cosmetic_resources("https://example.com/").injected_script;
    obs.inner_evals += 1;
    // the same scriptlet requested by several lists gets the union of their permissions
    let granted = |name: &str| -> u8 { c.requests.iter().filter(|(n, _)| n.trim_end_matches(".js") == name.trim_end_matches(".js")).fold(0u8, |a, (_, p)| a | p) };
    let mut interesting = false;
    // (1) every resource body present must be justified by some request that may use it
    for n in &uniq {
        let present = js.contains(&format!("NODE-{}*/", n.name));
        if !present {
            continue;
        }
        let justified = c.requests.iter().any(|(rn, _)| {
            let rname = if rn.ends_with(".js") { rn.clone() } else { format!("{}.js", rn) };
            let Some(root) = uniq.iter().find(|u| u.name == rname) else { return false };
            let g = granted(rn);
            let reaches = root.name == n.name || closure(&uniq, root).map(|cl| cl.iter().any(|d| d.name == n.name)).unwrap_or_else(|| {
                // partially resolved closures may leave earlier dependencies behind; they still
                // need the permission
                true
            });
            reaches && (n.perm & !g) == 0
        });
        if n.perm != 0 {
            interesting = true;
        }
        if !justified {
            return Err(format!("resource {:?} (permission {:#010b}) appears in the injected script but no requesting list was granted its bits; requests {:?}\n{}", n.name, n.perm, c.requests, js));
        }
    }
    // (2) a requested scriptlet whose whole closure is permitted for its own lists is injected;
    //     one whose closure contains a resource its lists may not use is not
    for (rn, _) in &c.requests {
        let rname = if rn.ends_with(".js") { rn.clone() } else { format!("{}.js", rn) };
        let Some(root) = uniq.iter().find(|u| u.name == rname) else { continue };
        let g = granted(rn);
        let injectable_kind = root.kind == 0 || root.kind == 2 || root.kind == 3;
        let cl = closure(&uniq, root);
        let want = injectable_kind && (root.perm & !g) == 0 && cl.as_ref().map(|cl| cl.iter().all(|d| (d.perm & !g) == 0)).unwrap_or(false);
        let fname = root.name.trim_end_matches(".js").replace(['.', '-'], "_");
        let invoked = match root.kind {
            0 => js.contains(&format!("try {{\n{}(", fname)),
            _ => js.contains(&format!("try {{\n/*NODE-{}*/", root.name)) || js.contains(&format!("try {{\n(function(){{ /*NODE-{}*/", root.name)),
        };
        if cl.as_ref().map(|c| !c.is_empty()).unwrap_or(true) {
            interesting = true;
        }
        if invoked != want {
            return Err(format!("scriptlet {:?} requested with permissions {:#010b}: invoked={}, expected {} (closure {:?})\n{}", rn, g, invoked, want, cl.map(|c| c.iter().map(|n| (n.name.clone(), n.perm)).collect::<Vec<_>>()), js));
        }
    }
    if interesting {
        obs.nontrivial = true;
    }
    Ok(())
}

fn decode_graph(t: &mut Tape) -> GraphCase {
    let names = ["a.js", "b.js", "c.js", "d.fn", "e.fn", "f.js", "g.fn", "h.js"];
    if t.chance(1, 30) {
        // a long dependency chain with the permissioned node at a generated depth
        let depth = 10 + t.pick(120);
        let bad = t.pick(depth);
        let mut nodes = vec![Node { name: "a.js".into(), kind: 0, perm: 0, deps: vec!["n0.fn".into()] }];
        for i in 0..depth {
            nodes.push(Node { name: format!("n{}.fn", i), kind: 1, perm: if i == bad { 2 } else { 0 }, deps: if i + 1 < depth { vec![format!("n{}.fn", i + 1)] } else { vec![] } });
        }
        return GraphCase { nodes, requests: vec![("a".into(), [0u8, 1, 2, 3][t.pick(4)])] };
    }
    if t.chance(1, 30) {
        // a wide page: one scriptlet pulls in 30-130 helpers, another scriptlet (usually from a list
        // with fewer bits) shares one helper that leads to a permissioned resource
        let w = 30 + t.pick(100);
        let shared = t.pick(w);
        let via = t.chance(1, 2);
        let mut a_deps = vec![];
        let mut nodes = vec![];
        for i in 0..w {
            a_deps.push(format!("w{}.fn", i));
            let deps = if i == shared { vec![if via { "mid.fn".to_string() } else { "p.fn".to_string() }] } else { vec![] };
            nodes.push(Node { name: format!("w{}.fn", i), kind: 1, perm: 0, deps });
        }
        nodes.push(Node { name: "mid.fn".into(), kind: 1, perm: 0, deps: vec!["p.fn".into()] });
        nodes.push(Node { name: "p.fn".into(), kind: 1, perm: [2u8, 2, 1, 0][t.pick(4)], deps: vec![] });
        nodes.push(Node { name: "a.js".into(), kind: 0, perm: 0, deps: a_deps });
        nodes.push(Node { name: "b.js".into(), kind: 0, perm: 0, deps: vec![format!("w{}.fn", shared)] });
        let pa = [3u8, 2, 0][t.pick(3)];
        let pb = [0u8, 0, 1, 2][t.pick(4)];
        let requests = if t.chance(1, 2) { vec![("a".to_string(), pa), ("b".to_string(), pb)] } else { vec![("b".to_string(), pb), ("a".to_string(), pa)] };
        return GraphCase { nodes, requests };
    }
    let n = 1 + t.pick(8);
    let mut nodes = vec![];
    for i in 0..n {
        let name = if t.chance(1, 10) { t.choose(&names).to_string() } else { names[i % names.len()].to_string() };
        let kind = if name.ends_with(".fn") { 1 } else { [0u8, 0, 0, 2, 3][t.pick(5)] };
        let mut deps = vec![];
        if kind != 2 {
            for _ in 0..t.pick(4) {
                deps.push(if t.chance(1, 8) { "missing.fn".to_string() } else { t.choose(&names).to_string() });
            }
        }
        nodes.push(Node { name, kind, perm: if t.chance(1, 3) { [1u8, 2, 3, 0x80, 0xff][t.pick(5)] } else { 0 }, deps });
    }
    let mut requests = vec![];
    for _ in 0..(1 + t.pick(3)) {
        let nm = t.choose(&["a", "b.js", "c", "f", "h", "a.js"]).to_string();
        requests.push((nm, [0u8, 0, 1, 2, 3, 0x81, 0xff][t.pick(7)]));
    }
    GraphCase { nodes, requests }
}

// ---- argument encoding ---------------------------------------------------------------------------

#[derive(Clone, Debug, Serialize, Deserialize)]
pub struct ArgCase {
    pub values: Vec<String>,
    /// per value: 0 bare, 1 "..", 2 '..', 3 `..`, 4 bare with escaped commas
    pub spelling: Vec<u8>,
    /// 0 none, 1 identical exception, 2 exception differing by one space, 3 blanket
    pub exception: u8,
    /// where rule and exception are declared relative to the page: 0 same host; 1 rule on the
    /// subdomain, exception on the parent domain; 2 rule on the host, exception on the entity
    /// `example.*`; 3 rule on the entity, exception on the subdomain
    #[serde(default)]
    pub placement: u8,
    /// what separates the arguments after each comma: 0 ", " 1 "," 2 ",\u{a0}" 3 ", \u{3000}" 4 ",\t"
    /// 5 ",\u{2003} " (padding before an argument is not part of it, whatever kind of white space)
    #[serde(default)]
    pub sep: u8,
}
impl Case for ArgCase {
    fn smaller(&self) -> Vec<Self> {
        let mut v = vec![];
        for i in 0..self.values.len() {
            let mut c = self.clone();
            c.values.remove(i);
            c.spelling.remove(i);
            v.push(c);
        }
        for i in 0..self.values.len() {
            let cs: Vec<char> = self.values[i].chars().collect();
            for k in 0..cs.len() {
                let mut d = cs.clone();
                d.remove(k);
                let mut c = self.clone();
                c.values[i] = d.into_iter().collect();
                v.push(c);
            }
        }
        v
    }
}

fn render(v: &str, sp: u8) -> Option<String> {
    let edge_ws = v.starts_with(char::is_whitespace) || v.ends_with(char::is_whitespace);
    let starts_quote = v.starts_with('"') || v.starts_with('\'') || v.starts_with('`');
    match sp {
        0 => {
            if v.is_empty() || v.contains(',') || edge_ws || starts_quote || v.ends_with('\\') { None } else { Some(v.to_string()) }
        }
        1 | 2 | 3 => {
            let q = ['"', '\'', '`'][(sp - 1) as usize];
            if v.contains(q) || v.ends_with('\\') { None } else { Some(format!("{}{}{}", q, v, q)) }
        }
        _ => {
            if v.is_empty() || !v.contains(',') || v.contains('\\') || edge_ws || starts_quote { None } else { Some(v.replace(',', "\\,")) }
        }
    }
}

pub fn check_args(c: &ArgCase, obs: &mut Obs) -> Result<(), String> {
    let mut parts = vec!["fnlet".to_string()];
    for (v, sp) in c.values.iter().zip(c.spelling.iter()) {
        match render(v, *sp) {
            Some(r) => parts.push(r),
            None => {
                obs.exclude("value not expressible in the chosen spelling");
                return Ok(());
            }
        }
    }
    if c.values.len() == 1 && c.values[0].starts_with('{') && c.values[0].ends_with('}') {
        obs.exclude("single {...} argument (object syntax is documented as unsupported)");
        return Ok(());
    }
    let sep = [", ", ",", ",\u{a0}", ", \u{3000}", ",\t", ",\u{2003} "][c.sep as usize % 6];
    let inner = parts.join(sep);
    if c.sep % 6 >= 2 {
        obs.label("unicode-or-tab-padding");
    }
    let (rule_loc, exc_loc, page) = match c.placement % 4 {
        0 => ("example.com", "example.com", "https://example.com/"),
        1 => ("www.example.com", "example.com", "https://www.example.com/"),
        2 => ("example.com", "example.*", "https://example.com/"),
        _ => ("example.*", "sub.example.com", "https://sub.example.com/"),
    };
    let line = format!("{}##+js({})", rule_loc, inner);
    if line.contains('\n') || line.contains('\r') {
        obs.exclude("line break inside a rule line");
        return Ok(());
    }
    let mut rules = vec![line.clone(), format!("{}##+js(other, keep)", rule_loc)];
    match c.exception {
        1 => rules.push(format!("{}#@#+js({})", exc_loc, inner)),
        2 => rules.push(format!("{}#@#+js({} )", exc_loc, inner.replacen(", ", ",  ", 1))),
        3 => rules.push(format!("{}#@#+js()", exc_loc)),
        _ => {}
    }
    if c.placement % 4 != 0 && c.exception != 0 {
        obs.label("exception-declared-elsewhere");
    }
    let mut e = Engine::from_rules(&rules, Default::default());
    e.use_resources(vec![
        res("fnlet.js", ResourceType::Mime(MimeType::ApplicationJavascript), "function fnlet(a, b) { /*MARK-fnlet*/ }", &[], 0),
        res("other.js", ResourceType::Mime(MimeType::ApplicationJavascript), "function other(a) { /*MARK-other*/ }", &[], 0),
    ]);
    let js = e.url_cosmetic_resources(page).injected_script;
    obs.inner_evals += 1;
    let call: Vec<&str> = js.lines().filter(|l| l.starts_with("fnlet(")).collect();
    let other_present = js.lines().any(|l| l.starts_with("other("));
    let want_present = match c.exception {
        1 | 3 => false,
        2 => inner.contains(", "), // the differing exception only differs when there was a ", " to widen; otherwise it is `x )` vs `x`
        _ => true,
    };
    // exception "2" without a ", " in the text: `+js(fnlet )` vs `+js(fnlet)`: different text => not removed
    let want_present = if c.exception == 2 { true } else { want_present };
    if (c.exception == 3) == other_present {
        return Err(format!("rules {:?}: unrelated injection present={} (blanket exception={})\n{}", rules, other_present, c.exception == 3, js));
    }
    if call.is_empty() == want_present {
        return Err(format!("rules {:?}: fnlet call present={}, expected {}\n{}", rules, !call.is_empty(), want_present, js));
    }
    if !want_present {
        obs.label("exception-removes");
        obs.nontrivial = true;
        return Ok(());
    }
    if call.len() != 1 {
        return Err(format!("rules {:?}: {} fnlet calls\n{}", rules, call.len(), js));
    }
    let l = call[0];
    let Some(args_txt) = l.strip_prefix("fnlet(").and_then(|r| r.strip_suffix(')')) else {
        return Err(format!("call line {:?} is not of the form fnlet(...)", l));
    };
    // the emitted arguments are string literals that parse back (as JSON strings) to the values
    let parsed: Result<Vec<String>, _> = serde_json::from_str(&format!("[{}]", args_txt));
    match parsed {
        Ok(got) => {
            if got != c.values {
                return Err(format!("rule {:?}: emitted call {:?} parses to {:?}, expected {:?}", line, l, got, c.values));
            }
        }
        Err(e) => return Err(format!("rule {:?}: emitted call {:?} does not parse as a list of string literals: {}", line, l, e)),
    }
    // and nothing escapes the literal in JavaScript either: U+2028/2029 are legal in JS strings
    // since ES2019; a raw line break or an unescaped quote would have failed the JSON parse above
    if c.values.iter().any(|v| v.chars().any(|ch| "\"'`\\$&,){}\u{2028}\u{2029}".contains(ch) || (ch as u32) < 0x20 || (ch as u32) > 0x7e)) {
        obs.nontrivial = true;
        obs.label("needs-escaping");
    }
    Ok(())
}

fn decode_args(t: &mut Tape) -> ArgCase {
    let atoms = ["\"", "'", "`", "\\", "$", "$1", "$$", "${x}", "&", ",", ")", "(", "{", "}", "\t", "\u{1}", "\u{7f}", "\u{2028}", "\u{2029}", "é", "😀", " ", "</script>", "\\n", "\\\"", "//", "/*", "*/", "+js(", "#", "##", "@"];
    let n = if t.chance(1, 25) { 8 + t.pick(8) } else { t.pick(5) };
    let mut values = vec![];
    let mut spelling = vec![];
    for _ in 0..n {
        let k = if t.chance(1, 40) { 200 + t.pick(3000) } else { 1 + t.pick(6) };
        let mut v = String::new();
        for _ in 0..k {
            match t.pick(8) {
                0..=3 => v.push_str(t.choose(&atoms)),
                4 => {
                    // every C0 control character except the line breaks, DEL, and C1 controls
                    let cp = [t.pick(32) as u32, 0x7f, 0x80 + t.pick(32) as u32][t.pick(3)];
                    if cp != 0x0a && cp != 0x0d {
                        if let Some(ch) = char::from_u32(cp) {
                            v.push(ch);
                        }
                    }
                }
                _ => v.push_str(&gen::word(t)),
            }
        }
        // pick a spelling that can express the value when there is one
        let mut sp = t.pick(5) as u8;
        for _ in 0..5 {
            if render(&v, sp).is_some() {
                break;
            }
            sp = (sp + 1) % 5;
        }
        values.push(v);
        spelling.push(sp);
    }
    ArgCase { values, spelling, exception: [0u8, 0, 0, 0, 1, 2, 3][t.pick(7)], placement: if t.chance(1, 2) { 0 } else { t.pick(4) as u8 }, sep: if t.chance(2, 3) { 0 } else { t.pick(6) as u8 } }
}

pub fn check(ctx: &mut Ctx) {
    ctx.rule = "perm: EXHAUSTIVE 256 x 256 (resource permission, list permission) pairs at engine level: a scriptlet is injected iff its bits are a subset of the list's, and a permissioned resource is never a redirect; graphs: 1-8 resources (function-style / fn / template, permissions on inner nodes, 0-3 dependencies each incl. cycles and missing names, duplicate names; 1 case in 30 a dependency chain of 10-129 nodes, 1 in 30 a wide page where one scriptlet pulls in 30-129 helpers and a second scriptlet from another list shares one helper that leads to a permissioned resource) and 1-3 requests from lists with different permissions: every resource body in the output must be justified by a request allowed to use it, and a scriptlet is invoked iff its whole dependency closure is permitted for the lists requesting it; args: 0-4 argument values built from quotes, backslashes, backticks, '$' sequences, braces, parentheses, control characters, U+2028/2029, non-ASCII, '</script>', comment markers, rendered bare / quoted with a quote character absent from the value / bare with '\\,' escapes; the emitted call's argument list must parse (as JSON string literals) back to exactly the values; identical exception removes the injection, a one-space-different one does not, a blanket exception removes all - wherever the exception is declared (same host, parent domain of the rule's subdomain, entity of the rule's host, subdomain under the rule's entity). Non-trivial: perm pair with neither side 0 or 255; graph with a permissioned or dependent node; argument needing escaping or removed by an exception.".into();
    ctx.assumptions = vec![
        "argument values are rendered only in spellings whose meaning is documented and pinned by the library's own quoted_scriptlet_args test; values expressible in none are skipped and counted".into(),
        "rule lines cannot contain line breaks".into(),
    ];
    run_indexed(ctx, "perm", 256, &|i| Some(PermCase { list_perm: i as u8, res_perm: None }), &check_perm);
    ctx.extra.insert("perm_grid".into(), json!({"pairs": 65536, "exhaustive": true}));
    let n = ctx.tier.pick(250_000, 2_500_000);
    drive(ctx, "graphs", n, 200, &decode_graph, &check_graph);
    let n = ctx.tier.pick(400_000, 4_000_000);
    drive(ctx, "args", n, 120, &decode_args, &check_args);
}

pub fn replay(ctx: &mut Ctx, v: &Value) {
    match v.get("check").and_then(|c| c.as_str()) {
        Some("perm") => replay_file::<PermCase>(ctx, v, &check_perm),
        Some("graphs") => replay_file::<GraphCase>(ctx, v, &check_graph),
        _ => replay_file::<ArgCase>(ctx, v, &check_args),
    }
}
