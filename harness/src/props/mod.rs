use crate::run::Ctx;
use serde_json::Value;

pub mod c01;
pub mod c05;

pub struct Entry {
    pub id: &'static str,
    pub check: fn(&mut Ctx),
    pub replay: fn(&mut Ctx, &Value),
}

pub fn lookup(id: &str) -> Option<Entry> {
    Some(match id {
        "C01" => Entry { id: "C01", check: c01::check, replay: c01::replay },
        "C05" => Entry { id: "C05", check: c05::check, replay: c05::replay },
        _ => return None,
    })
}

pub fn worker(_args: &[String]) -> i32 {
    2
}
