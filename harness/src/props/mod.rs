use crate::run::Ctx;
use serde_json::Value;

pub mod c01;
pub mod c02;
pub mod c03;
pub mod c04;
pub mod c05;
pub mod c06;
pub mod c07;
pub mod c08;
pub mod c09;
pub mod c10;
pub mod c11;
pub mod c12;
pub mod c13;
pub mod c14;
pub mod c15;
pub mod c16;
pub mod c17;
pub mod c18;
pub mod c19;
pub mod c20;

pub struct Entry {
    pub id: &'static str,
    pub check: fn(&mut Ctx),
    pub replay: fn(&mut Ctx, &Value),
}

pub fn lookup(id: &str) -> Option<Entry> {
    Some(match id {
        "C01" => Entry { id: "C01", check: c01::check, replay: c01::replay },
        "C02" => Entry { id: "C02", check: c02::check, replay: c02::replay },
        "C03" => Entry { id: "C03", check: c03::check, replay: c03::replay },
        "C04" => Entry { id: "C04", check: c04::check, replay: c04::replay },
        "C05" => Entry { id: "C05", check: c05::check, replay: c05::replay },
        "C06" => Entry { id: "C06", check: c06::check, replay: c06::replay },
        "C07" => Entry { id: "C07", check: c07::check, replay: c07::replay },
        "C08" => Entry { id: "C08", check: c08::check, replay: c08::replay },
        "C09" => Entry { id: "C09", check: c09::check, replay: c09::replay },
        "C10" => Entry { id: "C10", check: c10::check, replay: c10::replay },
        "C11" => Entry { id: "C11", check: c11::check, replay: c11::replay },
        "C12" => Entry { id: "C12", check: c12::check, replay: c12::replay },
        "C13" => Entry { id: "C13", check: c13::check, replay: c13::replay },
        "C14" => Entry { id: "C14", check: c14::check, replay: c14::replay },
        "C15" => Entry { id: "C15", check: c15::check, replay: c15::replay },
        "C16" => Entry { id: "C16", check: c16::check, replay: c16::replay },
        "C17" => Entry { id: "C17", check: c17::check, replay: c17::replay },
        "C18" => Entry { id: "C18", check: c18::check, replay: c18::replay },
        "C19" => Entry { id: "C19", check: c19::check, replay: c19::replay },
        "C20" => Entry { id: "C20", check: c20::check, replay: c20::replay },
        _ => return None,
    })
}

pub fn worker(args: &[String]) -> i32 {
    match args.first().map(|s| s.as_str()) {
        Some("digest") => c09::worker_digest(),
        Some(m) if m.starts_with("c19-") => c19::worker(args),
        Some("shard") | Some("one") if args.get(1).map(|s| s.as_str()) == Some("C10") => c10::worker(args),
        Some("corpus") => c10::worker(args),
        _ => 2,
    }
}
