use crate::run::Ctx;
use serde_json::Value;

pub mod c01;
pub mod c04;
pub mod c05;
pub mod c06;
pub mod c07;

pub struct Entry {
    pub id: &'static str,
    pub check: fn(&mut Ctx),
    pub replay: fn(&mut Ctx, &Value),
}

pub fn lookup(id: &str) -> Option<Entry> {
    Some(match id {
        "C01" => Entry { id: "C01", check: c01::check, replay: c01::replay },
        "C04" => Entry { id: "C04", check: c04::check, replay: c04::replay },
        "C05" => Entry { id: "C05", check: c05::check, replay: c05::replay },
        "C06" => Entry { id: "C06", check: c06::check, replay: c06::replay },
        "C07" => Entry { id: "C07", check: c07::check, replay: c07::replay },
        _ => return None,
    })
}

pub fn worker(_args: &[String]) -> i32 {
    2
}
