//! C13 — redirect result is the best permitted matching redirect resource.

use crate::eng::*;
use crate::gen::{self, ReqSpec};
use crate::run::{drive, replay_file, Case, Ctx, Obs, Tape};
use adblock::filters::network::NetworkFilterMaskHelper;
use adblock::resources::{MimeType, PermissionMask, Resource, ResourceType};
use serde::{Deserialize, Serialize};
use serde_json::Value;
use std::collections::HashSet;

#[derive(Clone, Debug, Serialize, Deserialize)]
pub struct ResSpec {
    pub name: String,
    pub aliases: Vec<String>,
    /// mime string, or "template"
    pub kind: String,
    pub permission: u8,
    pub valid_content: bool,
}

#[derive(Clone, Debug, Serialize, Deserialize)]
pub struct RedirCase {
    pub rules: Vec<String>,
    pub resources: Vec<ResSpec>,
    pub reqs: Vec<ReqSpec>,
    /// the first `initial` resources are loaded with use_resources(); the others are added one at
    /// a time with add_resource(), re-checking every request after each
    #[serde(default = "all_initial")]
    pub initial: usize,
}

fn all_initial() -> usize {
    usize::MAX
}

impl Case for RedirCase {
    fn smaller(&self) -> Vec<Self> {
        let mut v = vec![];
        for i in 0..self.rules.len() {
            let mut c = self.clone();
            c.rules.remove(i);
            v.push(c);
        }
        for i in 0..self.resources.len() {
            let mut c = self.clone();
            c.resources.remove(i);
            v.push(c);
        }
        if self.reqs.len() > 1 {
            for r in &self.reqs {
                let mut c = self.clone();
                c.reqs = vec![r.clone()];
                v.push(c);
            }
        }
        v
    }
}

const NAMES: &[&str] = &["noop.js", "noopjs", "1x1.gif", "blank.css", "empty", "tpl.js", "fn.js", "trusted.js", "nooptext", "x:y.js", "noop", "noop-1s.mp4", "noop.txt", "noop/x"];
const KINDS: &[&str] = &[
    "application/javascript", "image/gif", "text/css", "text/html", "application/json", "audio/mp3", "video/mp4", "image/png", "text/plain",
    "text/xml", "fn/javascript", "application/octet-stream", "template",
];

fn marker(i: usize, r: &ResSpec) -> String {
    format!("/*{}#{}*/", r.name, i)
}

/// The kind a definition's text denotes, decided by the harness (the reference store model must not
/// depend on the library's own reading of the text).
fn kind_of_text(k: &str) -> ResourceType {
    match k {
        "template" => ResourceType::Template,
        "text/css" => ResourceType::Mime(MimeType::TextCss),
        "image/gif" => ResourceType::Mime(MimeType::ImageGif),
        "text/html" => ResourceType::Mime(MimeType::TextHtml),
        "application/javascript" => ResourceType::Mime(MimeType::ApplicationJavascript),
        "application/json" => ResourceType::Mime(MimeType::ApplicationJson),
        "audio/mp3" => ResourceType::Mime(MimeType::AudioMp3),
        "video/mp4" => ResourceType::Mime(MimeType::VideoMp4),
        "image/png" => ResourceType::Mime(MimeType::ImagePng),
        "text/plain" => ResourceType::Mime(MimeType::TextPlain),
        "text/xml" => ResourceType::Mime(MimeType::TextXml),
        "fn/javascript" => ResourceType::Mime(MimeType::FnJavascript),
        _ => ResourceType::Mime(MimeType::Unknown),
    }
}

/// The resource as a user supplies it: a JSON definition read through the library's deserializer.
fn to_engine_resource(i: usize, r: &ResSpec) -> Resource {
    let kind = if r.kind == "template" { serde_json::json!("template") } else { serde_json::json!({ "mime": r.kind }) };
    let def = serde_json::json!({
        "name": r.name,
        "aliases": r.aliases,
        "kind": kind,
        "content": if r.valid_content { gen::b64(&marker(i, r)) } else { "!!!not-base64".to_string() },
        "permission": r.permission,
    });
    serde_json::from_value::<Resource>(def).unwrap_or_else(|_| to_resource(i, r))
}

fn to_resource(i: usize, r: &ResSpec) -> Resource {
    let kind = kind_of_text(&r.kind);
    Resource {
        name: r.name.clone(),
        aliases: r.aliases.clone(),
        kind,
        content: if r.valid_content { gen::b64(&marker(i, r)) } else { "!!!not-base64".to_string() },
        dependencies: vec![],
        permission: PermissionMask::from_bits(r.permission),
    }
}

pub fn check_case(c: &RedirCase, obs: &mut Obs) -> Result<(), String> {
    // `all` feeds the reference model, `given` is what the engine receives (JSON definitions)
    let all: Vec<Resource> = c.resources.iter().enumerate().map(|(i, r)| to_resource(i, r)).collect();
    let given: Vec<Resource> = c.resources.iter().enumerate().map(|(i, r)| to_engine_resource(i, r)).collect();
    let k0 = c.initial.min(all.len());
    let mut engine = build_engine(&c.rules, false, false, &given[..k0]);
    check_with(c, obs, &|q| Verdict::of(&engine.check_network_request(q)), "", &all[..k0])?;
    for k in k0..all.len() {
        let _ = engine.add_resource(given[k].clone());
        obs.label("add_resource-then-recheck");
        check_with(c, obs, &|q| Verdict::of(&engine.check_network_request(q)), "", &all[..=k])?;
    }
    // the same rules added one at a time to a Blocker (full store)
    let mut refused = vec![];
    if let Some(b) = incremental_blocker(&c.rules, std_opts(), &[], &mut refused) {
        // the store model: first add wins, invalid resources are rejected
        let mut store = adblock::resources::ResourceStorage::default();
        for r in &given {
            let _ = store.add_resource(r.clone());
        }
        obs.label("incremental-blocker");
        check_with(c, obs, &|q| Verdict::of(&b.check(q, &store)), " [rules added one at a time with Blocker::add_filter]", &all)?;
    }
    Ok(())
}

fn check_with(c: &RedirCase, obs: &mut Obs, ask: &dyn Fn(&adblock::request::Request) -> Verdict, how: &str, res: &[Resource]) -> Result<(), String> {
    let res: Vec<Resource> = res.to_vec();
    let parsed = parse_network(&c.rules);
    // the resource (and priority suffix) a redirect rule names is the text after `redirect=` /
    // `redirect-rule=` as written - read from the rule text, independently of the parser
    for p in &parsed {
        let opts = p.line.trim().rsplit_once('$').map(|x| x.1).unwrap_or("");
        let written: Vec<&str> = opts.split(',').filter_map(|o| o.strip_prefix("redirect=").or_else(|| o.strip_prefix("redirect-rule="))).collect();
        if written.len() == 1 && p.f.is_redirect() && p.f.modifier_option.as_deref() != Some(written[0]) {
            return Err(format!("rule {:?}: redirect option as written {:?}, parsed as {:?}", p.line, written[0], p.f.modifier_option));
        }
        if written.len() == 1 && !written[0].is_empty() && !p.f.is_redirect() {
            return Err(format!("rule {:?} carries a redirect option but is not parsed as a redirect rule", p.line));
        }
    }
    let active = active_rules(&parsed);
    let tags = HashSet::new();
    for r in &c.reqs {
        let Some(req) = mk_request(r) else { continue };
        obs.inner_evals += 1;
        let hits = hits_of(&active, &req);
        let spec = combine(&hits, &tags, &req, &r.url, &res);
        let got = ask(&req);
        let cands: Vec<&&Parsed> = hits.iter().filter(|p| p.f.is_redirect() && !p.f.is_exception()).collect();
        let excs = hits.iter().filter(|p| p.f.is_redirect() && p.f.is_exception()).count();
        let prios: HashSet<i32> = cands.iter().filter_map(|p| p.f.modifier_option.as_deref()).map(|o| split_priority(o).1).collect();
        if (cands.len() >= 2 && prios.len() >= 2) || (cands.len() >= 2 && excs >= 1) {
            obs.nontrivial = true;
        }
        if !cands.is_empty() {
            obs.label("redirect-candidate");
        }
        if excs > 0 {
            obs.label("redirect-exception");
        }
        if got.redirect.is_some() {
            obs.label("redirected");
        }
        if got.redirect.is_some() && !got.matched {
            obs.label("redirect-without-block");
        }
        if spec.redirect.len() > 1 {
            obs.label("priority-tie");
        }
        // ties leave the choice free, but the choice is a function of rules and request
        let again = ask(&req);
        if again.redirect != got.redirect {
            return Err(format!("request {:?}{}: the same query gave redirect {:?} and then {:?}", r, how, got.redirect, again.redirect));
        }
        if !spec.redirect.contains(&got.redirect) {
            return Err(format!(
                "request {:?}{}: redirect {:?} is not one of the acceptable answers {:?} (matching redirect rules: {:?})",
                r, how, got.redirect, spec.redirect, hits.iter().filter(|p| p.f.is_redirect()).map(|p| p.line.as_str()).collect::<Vec<_>>()
            ));
        }
        if spec.matched != got.matched || spec.important != got.important || spec.exception != got.exception {
            return Err(format!("request {:?}{}: blocked/important/exception spec {}/{}/{} engine {}/{}/{}", r, how, spec.matched, spec.important, spec.exception, got.matched, got.important, got.exception));
        }
        // a resource that requires any permission is never served as a redirect
        if let Some(d) = &got.redirect {
            for (i, rs) in c.resources.iter().enumerate() {
                if rs.permission != 0 && d.ends_with(&gen::b64(&marker(i, rs))) {
                    return Err(format!("request {:?}: permissioned resource {:?} served as redirect", r, rs.name));
                }
            }
        }
    }
    Ok(())
}

pub fn decode(t: &mut Tape) -> RedirCase {
    let hosts = ["x.com", "ads.x.com", "y.org"];
    let paths = ["/ad.js", "/ads/banner.gif", "/track?id=1", "/ad/x.css"];
    let pats = ["||x.com^", "||ads.x.com^", "/ad", "/ads/", "||x.com/ad", "*", "|https://", "banner", "||y.org^", ".js|", "/track?"];
    let mut rules = vec![];
    for _ in 0..(1 + t.pick(8)) {
        let p = t.choose(&pats);
        let name = t.choose(NAMES);
        let prio = t.choose(&["", "", ":0", ":1", ":10", ":10", ":-5", ":+3", ":99999999999", ":abc", ":", ":1:2", ":-2147483648", ":2147483647", ":-2147483649", ":-0", ":007"]);
        let key = if t.chance(1, 2) { "redirect" } else { "redirect-rule" };
        let mut opts = vec![format!("{}={}{}", key, name, prio)];
        if t.chance(1, 5) {
            opts.push(t.choose(&["script", "image", "~script", "3p", "domain=site.org", "important"]).to_string());
        }
        let ex = t.chance(1, 4);
        rules.push(format!("{}{}${}", if ex { "@@" } else { "" }, p, opts.join(",")));
    }
    for _ in 0..t.pick(4) {
        let p = t.choose(&pats);
        rules.push(match t.pick(4) {
            0 => format!("@@{}", p),
            1 => format!("{}$important", p),
            2 => format!("{}$script", p),
            _ => p.to_string(),
        });
    }
    let mut resources = vec![];
    for _ in 0..t.pick(7) {
        let name = t.choose(NAMES).to_string();
        let mut aliases = vec![];
        for _ in 0..t.pick(3) {
            aliases.push(t.choose(NAMES).to_string());
        }
        resources.push(ResSpec {
            name,
            aliases,
            kind: t.choose(KINDS).to_string(),
            permission: if t.chance(1, 4) { 1 + t.pick(255) as u8 } else { 0 },
            valid_content: !t.chance(1, 12),
        });
    }
    let mut reqs = vec![];
    for _ in 0..(1 + t.pick(5)) {
        let u = format!("https://{}{}", t.choose(&hosts), t.choose(&paths));
        reqs.push(ReqSpec { url: u, source: t.choose(&["https://site.org/", "https://x.com/", ""]).to_string(), rtype: t.choose(&["script", "image", "stylesheet", "xhr", "document"]).to_string() });
    }
    let initial = if t.chance(1, 2) { usize::MAX } else { t.pick(resources.len() + 1) };
    RedirCase { rules, resources, reqs, initial }
}

pub fn check(ctx: &mut Ctx) {
    ctx.rule = "1-8 redirect / redirect-rule / @@..$redirect[-rule] rules on 11 overlapping patterns with priority suffixes (none, 0, equal, negative, +n, i32::MIN, i32::MAX, overflowing, :abc, trailing ':', double ':'), optional extra options, plus plain/exception/important rules; resource stores of 0-6 resources given to the engine as JSON definitions read by the library's deserializer (names and aliases from a pool of 10 so clashes happen, all 12 mime types + template, permission 0 / non-zero, invalid base64); 1-5 requests; in half of the cases only a prefix of the store is loaded at first and the remaining resources are added one at a time with add_resource(), all requests being re-checked after each; finally the same rules are added one at a time to a Blocker (add_filter) and checked against the full store. Oracle: candidates = matching non-exception redirect rules (per-rule matcher) whose resource name is not named by a matching redirect exception; winners = maximal priority; acceptable = data URL of each winner under an independent resource-store model (first add wins, validation, redirectable kind, permission 0). Non-trivial = >= 2 candidates with different priorities, or an exception present beside >= 2 candidates.".into();
    ctx.assumptions = vec!["which rules match is decided by NetworkFilter::matches (C02/C03 check that); priority ties leave the choice free".into()];
    let n = ctx.tier.pick(600_000, 5_000_000);
    drive(ctx, "redirect", n, 300, &decode, &check_case);
}

pub fn replay(ctx: &mut Ctx, v: &Value) {
    replay_file::<RedirCase>(ctx, v, &check_case);
}
