//! C09 — serialization is deterministic (same process, fresh processes) and a fixpoint under reload.

use crate::eng::*;
use crate::gen::{self, FullCase, NetCfg};
use crate::run::{drive, replay_file, run_one, Ctx, Failure, Obs, Tape};
use adblock::Engine;
use serde_json::{json, Value};
use std::io::Write;
use std::process::{Command, Stdio};

pub fn digest(bytes: &[u8]) -> String {
    format!("{:016x}{:016x}-{}", seahash::hash(bytes), seahash::hash_seeded(bytes, 1, 2, 3, 4), bytes.len())
}

fn serialize_case(c: &FullCase) -> Result<Vec<u8>, String> {
    let res = gen::scriptlet_resources();
    let e = build_engine(&c.rules, c.debug, c.optimize, &res);
    e.serialize_raw().map_err(|x| format!("serialize: {:?}", x))
}

pub fn check_case(c: &FullCase, obs: &mut Obs) -> Result<(), String> {
    // (a) two engines built independently in this process (each HashMap has its own RandomState)
    let b1 = serialize_case(c)?;
    let b2 = serialize_case(c)?;
    obs.inner_evals += 3;
    if b1 != b2 {
        let i = b1.iter().zip(b2.iter()).position(|(x, y)| x != y).unwrap_or(b1.len().min(b2.len()));
        return Err(format!("two independently built engines serialize differently (lengths {} / {}, first difference at byte {})", b1.len(), b2.len(), i));
    }
    // (c) fixpoint, iterated twice
    let mut cur = b1.clone();
    for round in 0..2 {
        // the receiver's own construction options are irrelevant: loading replaces them
        let mut e = if round == 0 { Engine::new(c.optimize) } else if c.rules.len() % 2 == 0 { Engine::new(!c.optimize) } else { Engine::default() };
        e.deserialize(&cur).map_err(|x| format!("deserialize: {:?}", x))?;
        let again = e.serialize_raw().map_err(|x| format!("serialize: {:?}", x))?;
        if again != b1 {
            let i = again.iter().zip(b1.iter()).position(|(x, y)| x != y).unwrap_or(again.len().min(b1.len()));
            return Err(format!("serialize(deserialize(b)) != b in round {} (lengths {} / {}, first difference at byte {})", round, again.len(), b1.len(), i));
        }
        cur = again;
    }
    // non-trivial: enough entries that hash iteration order could matter
    let net = c.rules.iter().filter(|r| !r.contains("##") && !r.contains("#@#")).count();
    let cos = c.rules.len() - net;
    if net >= 8 && cos >= 4 {
        obs.nontrivial = true;
    }
    if c.optimize {
        obs.label("optimize");
    }
    if c.debug {
        obs.label("debug");
    }
    if c.rules.len() >= 100 {
        obs.label("100+rules");
    }
    Ok(())
}

pub fn decode(t: &mut Tape) -> FullCase {
    gen::full_case(t, &NetCfg { max_rules: 120, max_reqs: 1, ..Default::default() }, 4)
}

pub fn decode_big(t: &mut Tape) -> FullCase {
    let mut c = gen::full_case(t, &NetCfg { max_rules: 1500, max_reqs: 1, ..Default::default() }, 4);
    // many rules sharing tokens => fused groups and multi-rule buckets
    for _ in 0..t.pick(200) {
        let f = gen::fuse_case(t);
        c.rules.extend(f.rules);
    }
    c
}

/// `vh worker digest`: reads {"lists":[FullCase...]} on stdin, prints one digest per line.
pub fn worker_digest() -> i32 {
    let mut s = String::new();
    if std::io::Read::read_to_string(&mut std::io::stdin(), &mut s).is_err() {
        return 2;
    }
    let Ok(v) = serde_json::from_str::<Vec<FullCase>>(&s) else { return 2 };
    let out = std::io::stdout();
    let mut out = out.lock();
    for c in v {
        match serialize_case(&c) {
            Ok(b) => {
                let _ = writeln!(out, "{}", digest(&b));
            }
            Err(e) => {
                let _ = writeln!(out, "ERR {}", e);
            }
        }
    }
    0
}

fn cross_process(ctx: &mut Ctx, cases: &[FullCase], procs: usize) {
    let exe = std::env::current_exe().expect("current_exe");
    let input = serde_json::to_string(cases).unwrap();
    let local: Vec<String> = cases.iter().map(|c| serialize_case(c).map(|b| digest(&b)).unwrap_or_else(|e| format!("ERR {}", e))).collect();
    let mut children = vec![];
    for _ in 0..procs {
        let mut ch = match Command::new(&exe).args(["worker", "digest"]).stdin(Stdio::piped()).stdout(Stdio::piped()).spawn() {
            Ok(c) => c,
            Err(e) => {
                eprintln!("INFRA: cannot spawn worker: {}", e);
                std::process::exit(2);
            }
        };
        let mut stdin = ch.stdin.take().unwrap();
        let inp = input.clone();
        let h = std::thread::spawn(move || {
            let _ = stdin.write_all(inp.as_bytes());
        });
        children.push((ch, h));
    }
    for (ch, h) in children {
        let _ = h.join();
        let out = match ch.wait_with_output() {
            Ok(o) => o,
            Err(e) => {
                eprintln!("INFRA: worker wait failed: {}", e);
                std::process::exit(2);
            }
        };
        if !out.status.success() {
            eprintln!("INFRA: digest worker exited with {:?}", out.status);
            std::process::exit(2);
        }
        let lines: Vec<String> = String::from_utf8_lossy(&out.stdout).lines().map(|s| s.to_string()).collect();
        if lines.len() != cases.len() {
            eprintln!("INFRA: digest worker returned {} lines for {} lists", lines.len(), cases.len());
            std::process::exit(2);
        }
        for (i, (l, d)) in lines.iter().zip(local.iter()).enumerate() {
            ctx.stats.inner_evals += 1;
            if l != d {
                ctx.fail(Failure {
                    check: "cross-process".into(),
                    case: serde_json::to_value(&cases[i]).unwrap(),
                    message: format!("a fresh process serializes this list to {} but this process to {}", l, d),
                });
            }
        }
    }
    *ctx.stats.sub.entry("cross-process-lists".into()).or_insert(0) += cases.len() as u64;
}

pub fn check(ctx: &mut Ctx) {
    ctx.rule = "lists of up to 120 (mid) / up to ~3000 (big, with many rules sharing a token so buckets hold several rules and fusion happens) network + cosmetic rules, debug/optimise flags generated; (a) two independent in-process builds give identical bytes, (b) K fresh child processes give the same digest as the parent, (c) serialize(deserialize(b)) == b twice (the second time into a receiver constructed with the other optimisation flag or with Engine::default()). Plus deterministic slices of the real lists in /repo/data. Non-trivial = at least 8 network and 4 cosmetic rules.".into();
    ctx.assumptions = vec!["hash-seed variation comes from std RandomState (fresh per map and per process); digests are two independent 64-bit seahash values + length".into()];
    let n = ctx.tier.pick(20_000, 200_000);
    drive(ctx, "mid", n, 6000, &decode, &check_case);
    let n = ctx.tier.pick(600, 6_000);
    drive(ctx, "big", n, 60000, &decode_big, &check_case);
    // real lists + cross-process
    let (per, len) = ctx.tier.pick((2, 1500), (10, 12000));
    let real = super::c08::real_list_slices(ctx, per, len);
    for c in &real {
        run_one(ctx, "real-lists", c, &check_case);
    }
    // generated lists for the cross-process part (deterministic from the seed)
    let ngen = ctx.tier.pick(600, 4000);
    let mut gen_cases = vec![];
    {
        use proptest::strategy::{Strategy, ValueTree};
        use proptest::test_runner::{Config, RngAlgorithm, TestRng, TestRunner};
        let mut seed = [7u8; 32];
        seed[..8].copy_from_slice(&ctx.seed.to_le_bytes());
        let mut runner = TestRunner::new_with_rng(Config::default(), TestRng::from_seed(RngAlgorithm::ChaCha, &seed));
        let strat = crate::run::tape_strategy(6000);
        for i in 0..ngen {
            let tape = strat.new_tree(&mut runner).unwrap().current();
            let mut t = Tape::new(&tape);
            gen_cases.push(if i % 10 == 0 { decode_big(&mut t) } else { decode(&mut t) });
        }
    }
    gen_cases.extend(real.into_iter());
    let procs = ctx.tier.pick(3, 4);
    for chunk in gen_cases.chunks(64) {
        cross_process(ctx, chunk, procs);
    }
    ctx.extra.insert("child_processes_per_list".into(), json!(procs));
}

pub fn replay(ctx: &mut Ctx, v: &Value) {
    replay_file::<FullCase>(ctx, v, &check_case);
    // also across processes
    if let Ok(c) = serde_json::from_value::<FullCase>(v.get("case").cloned().unwrap_or(Value::Null)) {
        cross_process(ctx, &[c], 3);
    }
}
