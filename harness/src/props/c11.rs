//! C11 — list parsing is total, line-independent, and format / rule-type options hold.

use crate::eng::*;
use crate::gen::{self, FullCase, NetCfg, ReqSpec};
use crate::run::{drive, guard, replay_file, run_indexed, Case, Ctx, Obs, Tape, Tier};
use adblock::filters::cosmetic::CosmeticFilter;
use adblock::filters::network::{NetworkFilter, NetworkFilterMaskHelper, NetworkMatchable};
use adblock::lists::{parse_filter, read_list_metadata, FilterFormat, FilterSet, ParseOptions, ParsedFilter, RuleTypes};
use adblock::regex_manager::RegexManager;
use adblock::request::Request;
use adblock::resources::PermissionMask;
use adblock::Engine;
use serde::{Deserialize, Serialize};
use serde_json::{json, Value};
use std::collections::HashSet;

const MUT_CHARS: &[&str] = &["é", "€", "😀", "\u{2028}", "\u{0301}", "$", "#", "|", ",", "~", "*", "\\", "(", ")", "\0", "\t", "@", "^", "/", ":", "=", "'", "\"", " ", "+js(", "##", "\u{00a0}", "İ"];

const BUILTIN_SEEDS: &[&str] = &[
    "||example.com^", "@@||example.com/path$script,domain=a.com|~b.a.com", "/banner/*/img^", "|https://ads.", "ads.js|", "/^https?:\\/\\/[a-z]{3}\\.com\\/ad/$match-case,image",
    "||x.com^$redirect=noop.js:10", "||x.com^$redirect-rule=1x1.gif", "*$removeparam=utm_source", "||x.com^$csp=script-src 'none'", "@@||x.com^$csp", "@@||x.com^$generichide",
    "foo$tag=bar,important", "||bücher.de^$third-party", "example.com##.ad", "example.com,~sub.example.com##div > .ad[href^=\"http\"]", "example.*##.ad", "~example.com##.ad",
    "example.com#@#.ad", "##.generic-ad", "###id-ad", "example.com##.ad:style(color: red !important)", "example.com##.ad:remove()", "example.com##.ad:remove-attr(onclick)",
    "example.com##.ad:remove-class(x)", "example.com##+js(set, a.b, 'x, y', \"q\")", "example.com#@#+js()", "example.com##+js(abort.js, a\\,b)", "example.com#?#.ad:has-text(foo)",
    "example.com##^script:has-text(x)", "[$path=/x]example.com##.ad", "example.com#$#.ad { color: red }", "example.com#%#//scriptlet('x')", "0.0.0.0 ads.example.com", "127.0.0.1\tads.example.com # c",
    "! Title: my list", "! Expires: 4 days", "[Adblock Plus 2.0]", "||x.com^$domain=a.com|/re/|~b.com", "||x.com^$from=a.com", "||x.com^$doc", "||x.com^$~doc", "|ws://$websocket", "||a.b.c.d.e.f^",
    "##.\\31 23", "##.a\\.b", "##.\\0000311x", "##.é", "пример.рф##.ad", "||пример.рф^", "a$b$script", "$script", "@@", "||", "|", "*", "^", "||*^", "|||x|||",
];

fn shape(line: &str) -> String {
    let mut s = String::new();
    let mut last = ' ';
    for c in line.chars() {
        let k = if c.is_ascii_alphabetic() { 'a' } else if c.is_ascii_digit() { '0' } else if !c.is_ascii() { 'u' } else { c };
        if k != last || !(k == 'a' || k == '0' || k == 'u') {
            s.push(k);
        }
        last = k;
    }
    s
}

pub fn seeds(max: usize) -> Vec<String> {
    let mut out: Vec<String> = BUILTIN_SEEDS.iter().map(|s| s.to_string()).collect();
    let mut seen: HashSet<String> = out.iter().map(|s| shape(s)).collect();
    for path in [
        "/repo/data/uBlockOrigin/filters.txt",
        "/repo/data/uBlockOrigin/unbreak.txt",
        "/repo/data/easylist.to/easylist/easylist.txt",
        "/repo/data/easylist.to/easylist/easyprivacy.txt",
        "/repo/data/easylist.to/easylistgermany/easylistgermany.txt",
        "/repo/data/test/malwaredomains.txt",
    ] {
        if let Ok(txt) = std::fs::read_to_string(path) {
            for l in txt.lines() {
                if out.len() >= max {
                    return out;
                }
                if l.len() > 160 || l.is_empty() {
                    continue;
                }
                if seen.insert(shape(l)) {
                    out.push(l.to_string());
                }
            }
        }
    }
    out
}

/// Everything a caller can do with one line; must never panic.
fn exercise_line(line: &str, deep: bool) -> Result<(bool, bool), String> {
    let mut parsed_ok = false;
    let mut late_error = false;
    for format in [FilterFormat::Standard, FilterFormat::Hosts] {
        for rule_types in [RuleTypes::All, RuleTypes::NetworkOnly, RuleTypes::CosmeticOnly] {
            for debug in [true, false] {
                let perm = PermissionMask::from_bits((seahash::hash(line.as_bytes()) & 0xff) as u8);
                let opts = ParseOptions { format, rule_types, permissions: perm };
                match guard(|| parse_filter(line, debug, opts)) {
                    Err(p) => return Err(format!("parse_filter({:?}, debug={}, {:?}, {:?}) panicked: {}", line, debug, format, rule_types, p)),
                    Ok(Ok(_)) => parsed_ok = true,
                    Ok(Err(e)) => {
                        let d = format!("{:?}", e);
                        if d.starts_with("Network") || d.starts_with("Cosmetic") {
                            late_error = true;
                        }
                    }
                }
            }
        }
    }
    guard(|| {
        let _ = NetworkFilter::parse(line, true, Default::default());
        let _ = NetworkFilter::parse(line, false, Default::default());
        let _ = CosmeticFilter::parse(line, true, PermissionMask::from_bits(3));
        let _ = NetworkFilter::parse_hosts_style(line, true);
        let _ = read_list_metadata(line);
        let _ = read_list_metadata(&format!("! Title: {}\n! Expires: {}\n! Homepage: {}\n{}", line, line, line, line));
        let mut fs = FilterSet::new(true);
        let _ = fs.add_filter(line, Default::default());
        let _ = fs.add_filter_list(&format!("{}\r\n{}\n\n{}", line, line, line), Default::default());
        let _ = fs.add_filter_list(line, ParseOptions { format: FilterFormat::Hosts, ..Default::default() });
    })
    .map_err(|p| format!("a parsing entry point panicked on {:?}: {}", line, p))?;
    if deep && parsed_ok {
        guard(|| {
            let host: String = line.chars().filter(|c| c.is_ascii_alphanumeric() || *c == '.' || *c == '-').take(30).collect();
            let urls = [format!("https://{}/{}", if host.is_empty() { "example.com" } else { &host }, line), "https://example.com/ads/banner.js?utm_source=1".to_string(), format!("https://example.com/{}", line.replace(['|', '^', '*', '@', '$'], ""))];
            if let Ok(f) = NetworkFilter::parse(line, true, Default::default()) {
                let _ = f.get_id();
                let _ = f.get_id_without_badfilter();
                let _ = f.get_tokens();
                let _ = f.to_string();
                for u in &urls {
                    for ty in ["script", "document"] {
                        if let Ok(q) = Request::new(u, "https://example.org/", ty) {
                            let _ = f.matches(&q, &mut RegexManager::default());
                        }
                    }
                }
            }
            for optimize in [false, true] {
                for format in [FilterFormat::Standard, FilterFormat::Hosts] {
                    let mut fs = FilterSet::new(optimize);
                    fs.add_filters(&[line.to_string(), line.to_string(), format!("{}$badfilter", line)], ParseOptions { format, permissions: PermissionMask::from_bits(0xff), ..Default::default() });
                    let mut e = Engine::from_filter_set(fs, optimize);
                    e.use_resources(gen::scriptlet_resources());
                    e.use_tags(&["t1"]);
                    for u in &urls {
                        for ty in ["script", "document", "xhr"] {
                            if let Ok(q) = Request::new(u, "https://example.org/", ty) {
                                let _ = e.check_network_request(&q);
                                let _ = e.get_csp_directives(&q);
                            }
                        }
                        let r = e.url_cosmetic_resources(u);
                        let _ = e.hidden_class_id_selectors(["ad", "a"], ["ad"], &r.exceptions);
                    }
                    if let Ok(b) = e.serialize_raw() {
                        let mut e2 = Engine::new(optimize);
                        let _ = e2.deserialize(&b);
                    }
                }
            }
        })
        .map_err(|p| format!("using the rule parsed from {:?} panicked: {}", line, p))?;
    }
    Ok((parsed_ok, late_error))
}

#[derive(Clone, Debug, Serialize, Deserialize)]
pub struct MutCase {
    pub seed: String,
    /// None = every offset x every mutation char (insert and replace); Some(line) = this line only
    pub only: Option<String>,
}
impl Case for MutCase {}

pub fn check_mut(c: &MutCase, obs: &mut Obs) -> Result<(), String> {
    let mut run = |m: &str, obs: &mut Obs| -> Result<(), String> {
        obs.inner_evals += 1;
        match exercise_line(m, true) {
            Ok((ok, late)) => {
                if ok || late {
                    obs.inner_nontrivial.push(seahash::hash(m.as_bytes()));
                }
                Ok(())
            }
            Err(e) => Err(format!("REPLAY_CASE:{}\n{}", serde_json::to_string(&MutCase { seed: c.seed.clone(), only: Some(m.to_string()) }).unwrap(), e)),
        }
    };
    if let Some(l) = &c.only {
        return run(l, obs);
    }
    run(&c.seed, obs)?;
    let idx: Vec<usize> = c.seed.char_indices().map(|(i, _)| i).chain(std::iter::once(c.seed.len())).collect();
    for (k, &i) in idx.iter().enumerate() {
        for ch in MUT_CHARS {
            // insert
            let m = format!("{}{}{}", &c.seed[..i], ch, &c.seed[i..]);
            run(&m, obs)?;
            // replace
            if k + 1 < idx.len() {
                let m = format!("{}{}{}", &c.seed[..i], ch, &c.seed[idx[k + 1]..]);
                run(&m, obs)?;
            }
        }
        // truncate / cut
        run(&c.seed[..i], obs)?;
        run(&c.seed[i..], obs)?;
    }
    obs.nontrivial = true;
    Ok(())
}

// random utf-8 / grammar-aware splices
#[derive(Clone, Debug, Serialize, Deserialize)]
pub struct LineCase {
    pub line: String,
}
impl Case for LineCase {
    fn smaller(&self) -> Vec<Self> {
        let cs: Vec<char> = self.line.chars().collect();
        let mut v = vec![];
        if cs.len() > 1 {
            v.push(LineCase { line: cs[..cs.len() / 2].iter().collect() });
            v.push(LineCase { line: cs[cs.len() / 2..].iter().collect() });
            for i in 0..cs.len() {
                let mut d = cs.clone();
                d.remove(i);
                v.push(LineCase { line: d.into_iter().collect() });
            }
        }
        v
    }
}

pub fn check_line(c: &LineCase, obs: &mut Obs) -> Result<(), String> {
    let (ok, late) = exercise_line(&c.line, true)?;
    if ok || late {
        obs.nontrivial = true;
    }
    if ok { obs.label("parses"); }
    Ok(())
}

fn decode_line(t: &mut Tape, seeds: &[String]) -> LineCase {
    let frag = |t: &mut Tape| -> String {
        match t.pick(6) {
            0 => {
                let s = t.choose_ref(seeds);
                let cs: Vec<char> = s.chars().collect();
                let a = t.pick(cs.len() + 1);
                let b = (a + t.pick(12)).min(cs.len());
                cs[a..b].iter().collect()
            }
            1 => t.choose(MUT_CHARS).to_string(),
            2 => t.choose(&["$", "##", "#@#", "#?#", "||", "@@", "+js(", ")", ":style(", ":remove()", ",", "domain=", "removeparam=", "redirect=", "csp=", "tag=", "~", "|", "^", "*", "/", "\\", "'", "\"", "`"]).to_string(),
            3 => gen::word(t),
            4 => char::from_u32(t.next() as u32 % 0x3000).map(|c| c.to_string()).unwrap_or_default(),
            _ => t.choose(gen::TYPE_OPTS).to_string(),
        }
    };
    let n = 1 + t.pick(8);
    let mut s = String::new();
    for _ in 0..n {
        s.push_str(&frag(t));
    }
    LineCase { line: s }
}

// ---- line independence -------------------------------------------------------------------------

#[derive(Clone, Debug, Serialize, Deserialize)]
pub struct IndepCase {
    pub list: Vec<String>,
    /// (position, junk line)
    pub junk: Vec<(usize, String)>,
    pub hosts_format: bool,
    pub crlf: bool,
    pub optimize: bool,
}
impl Case for IndepCase {
    fn smaller(&self) -> Vec<Self> {
        let mut v = vec![];
        for i in 0..self.junk.len() {
            let mut c = self.clone();
            c.junk.remove(i);
            v.push(c);
        }
        for i in 0..self.list.len() {
            let mut c = self.clone();
            c.list.remove(i);
            v.push(c);
        }
        v
    }
}

fn bytes_of(lines: &[String], opts: ParseOptions, optimize: bool, as_text: Option<&str>) -> Vec<u8> {
    let mut fs = FilterSet::new(false);
    match as_text {
        Some(sep) => {
            fs.add_filter_list(&lines.join(sep), opts);
        }
        None => {
            fs.add_filters(lines, opts);
        }
    }
    Engine::from_filter_set(fs, optimize).serialize_raw().unwrap_or_default()
}

pub fn check_indep(c: &IndepCase, obs: &mut Obs) -> Result<(), String> {
    let opts = ParseOptions { format: if c.hosts_format { FilterFormat::Hosts } else { FilterFormat::Standard }, ..Default::default() };
    // only lines that the parser rejects on their own, and that contain no line break, are junk
    let junk: Vec<(usize, String)> = c.junk.iter().filter(|(_, j)| !j.contains('\n') && !j.contains('\r') && parse_filter(j, false, opts).is_err()).cloned().collect();
    let mut with = c.list.clone();
    for (pos, j) in junk.iter().rev() {
        with.insert((*pos).min(with.len()), j.clone());
    }
    let accepted: Vec<String> = c.list.iter().filter(|l| parse_filter(l, false, opts).is_ok()).cloned().collect();
    let base = bytes_of(&c.list, opts, c.optimize, None);
    obs.inner_evals += 3;
    if bytes_of(&with, opts, c.optimize, None) != base {
        return Err(format!("inserting rejected lines {:?} changed the engine built from {:?}", junk, c.list));
    }
    if bytes_of(&accepted, opts, c.optimize, None) != base {
        return Err(format!("deleting the rejected lines of {:?} changed the engine (accepted: {:?})", c.list, accepted));
    }
    // same through the text entry point (only meaningful when no line contains a line break itself)
    if with.iter().all(|l| !l.contains('\n') && !l.contains('\r') && l.trim() == l.as_str()) {
        let sep = if c.crlf { "\r\n" } else { "\n" };
        if bytes_of(&with, opts, c.optimize, Some(sep)) != base {
            return Err(format!("add_filter_list(text joined with {:?}) differs from add_filters(lines) for {:?}", sep, with));
        }
    }
    let kinds: HashSet<bool> = accepted.iter().map(|l| matches!(parse_filter(l, false, opts), Ok(ParsedFilter::Network(_)))).collect();
    if accepted.len() >= 3 && !junk.is_empty() {
        obs.nontrivial = true;
    }
    if kinds.len() == 2 {
        obs.label("both-kinds");
    }
    if accepted.len() < c.list.len() {
        obs.label("list-has-own-rejected-lines");
    }
    Ok(())
}

fn decode_indep(t: &mut Tape, seeds: &[String]) -> IndepCase {
    let hosts_format = t.chance(1, 6);
    let mut list = if hosts_format {
        gen::hosts_case(t).rules
    } else {
        gen::full_case(t, &NetCfg { max_rules: 14, max_reqs: 1, ..Default::default() }, 4).rules
    };
    for _ in 0..t.pick(3) {
        list.push(t.choose_ref(seeds).clone());
    }
    // valid rules that look like something else (bracketed, '#'-led, header-ish), often first
    if !hosts_format && t.chance(1, 3) {
        let odd = t.choose(&["[banner-ad]", "[ads]/img", "#ads-frame", "[x].js$script", "[Adblock-ish]", "/[a]/", "!x"]).to_string();
        if t.chance(1, 2) { list.insert(0, odd); } else { let i = t.pick(list.len() + 1); list.insert(i, odd); }
    }
    let mut junk = vec![];
    for _ in 0..(1 + t.pick(5)) {
        let j = match t.pick(5) {
            0 => t.choose(gen::JUNK).to_string(),
            1 => decode_line(t, seeds).line,
            2 => format!("! {}", gen::word(t)),
            3 => {
                // a valid rule broken by one mutation
                let s = t.choose_ref(seeds).clone();
                let cs: Vec<char> = s.chars().collect();
                let i = t.pick(cs.len() + 1);
                format!("{}{}{}", cs[..i].iter().collect::<String>(), t.choose(MUT_CHARS), cs[i..].iter().collect::<String>())
            }
            _ => t.choose(&["example.com##", "##", "#@#.x", "||x.com^$unknownopt", "foo$removeparam", "@@foo$removeparam=x", "foo$generichide", "example.com##+js(", "a", "!", "[Adblock]"]).to_string(),
        };
        junk.push((if t.chance(1, 3) { 0 } else { t.pick(list.len() + 1) }, j));
    }
    if t.chance(1, 6) {
        // a long leading block of comment / header lines (list headers with changelogs routinely
        // exceed the 1024-byte window that metadata scanning looks at)
        let target = 700 + t.pick(900);
        let mut total = 0;
        let mut head = vec![];
        while total < target {
            let l = match t.pick(5) {
                0 => format!("! {}: {}", t.choose(&["Title", "Homepage", "Expires", "Version", "Licence"]), gen::word(t)),
                1 => "[Adblock Plus 2.0]".to_string(),
                2 => format!("! {} unbreak: https://{}{}", gen::word(t), gen::host(t).0, gen::path(t)),
                3 => format!("! {}", (0..(1 + t.pick(12))).map(|_| gen::word(t)).collect::<Vec<_>>().join(" ")),
                _ => format!("!{}", "-".repeat(1 + t.pick(70))),
            };
            total += l.len() + 1;
            head.push(l);
        }
        for (i, l) in head.into_iter().enumerate() {
            junk.insert(i, (0, l));
        }
    }
    IndepCase { list, junk, hosts_format, crlf: t.chance(1, 2), optimize: t.chance(1, 2) }
}

// ---- several add calls with different options on ONE FilterSet -----------------------------------

#[derive(Clone, Debug, Serialize, Deserialize)]
pub struct MultiCase {
    /// per call: (lines, hosts format, rule types 0 all / 1 network only / 2 cosmetic only, permission bits)
    pub calls: Vec<(Vec<String>, bool, u8, u8)>,
    pub optimize: bool,
}
impl Case for MultiCase {
    fn smaller(&self) -> Vec<Self> {
        let mut v = vec![];
        for i in 0..self.calls.len() {
            if self.calls.len() > 1 {
                let mut c = self.clone();
                c.calls.remove(i);
                v.push(c);
            }
            for k in 0..self.calls[i].0.len() {
                let mut c = self.clone();
                c.calls[i].0.remove(k);
                v.push(c);
            }
        }
        v
    }
}

fn multi_opts(hosts: bool, rt: u8, perm: u8) -> ParseOptions {
    ParseOptions {
        format: if hosts { FilterFormat::Hosts } else { FilterFormat::Standard },
        rule_types: match rt % 3 {
            0 => RuleTypes::All,
            1 => RuleTypes::NetworkOnly,
            _ => RuleTypes::CosmeticOnly,
        },
        permissions: adblock::resources::PermissionMask::from_bits(perm),
        ..Default::default()
    }
}

/// A line rejected under the options of ITS call is skipped without influence - also on the same
/// text arriving in another call with other options: the set built from the calls equals the set
/// built from the same calls with each call's individually rejected lines deleted.
pub fn check_multi(c: &MultiCase, obs: &mut Obs) -> Result<(), String> {
    let build = |calls: &Vec<(Vec<String>, bool, u8, u8)>| -> Vec<u8> {
        let mut fs = FilterSet::new(false);
        for (lines, hosts, rt, perm) in calls {
            fs.add_filters(lines, multi_opts(*hosts, *rt, *perm));
        }
        Engine::from_filter_set(fs, c.optimize).serialize_raw().unwrap_or_default()
    };
    let mut cleaned = c.calls.clone();
    let mut dropped = 0;
    let mut kept_twice = false;
    let mut seen: HashSet<String> = HashSet::new();
    for (lines, hosts, rt, perm) in cleaned.iter_mut() {
        let o = multi_opts(*hosts, *rt, *perm);
        let before = lines.len();
        lines.retain(|l| parse_filter(l, false, o).is_ok());
        dropped += before - lines.len();
    }
    for (lines, _, _, _) in &c.calls {
        for l in lines {
            if !seen.insert(l.trim().to_string()) {
                kept_twice = true;
            }
        }
    }
    obs.inner_evals += 2;
    if dropped > 0 && kept_twice {
        obs.nontrivial = true;
        obs.label("text-repeated-across-calls");
    }
    if build(&c.calls) != build(&cleaned) {
        return Err(format!("calls {:?}: deleting the lines that each call rejects on its own changes the engine (cleaned: {:?})", c.calls, cleaned));
    }
    Ok(())
}

fn decode_multi(t: &mut Tape, seeds: &[String]) -> MultiCase {
    // a shared pool so that the same text arrives in several calls
    let mut pool: Vec<String> = gen::full_case(t, &NetCfg { max_rules: 10, max_reqs: 1, ..Default::default() }, 4).rules;
    for _ in 0..(1 + t.pick(3)) {
        pool.push(t.choose_ref(seeds).clone());
    }
    pool.extend(gen::hosts_case(t).rules.into_iter().take(3));
    pool.push("example.com##+js(perm)".into());
    pool.push(t.choose(gen::JUNK).to_string());
    let mut calls = vec![];
    for _ in 0..(2 + t.pick(3)) {
        let mut lines = vec![];
        for _ in 0..(1 + t.pick(6)) {
            lines.push(t.choose_ref(&pool).clone());
        }
        calls.push((lines, t.chance(1, 4), t.pick(3) as u8, [0u8, 0, 1, 3][t.pick(4)]));
    }
    MultiCase { calls, optimize: t.chance(1, 2) }
}

// ---- hosts equivalence and rule-type options ----------------------------------------------------

#[derive(Clone, Debug, Serialize, Deserialize)]
pub struct HostsEq {
    pub host: String,
    pub line_style: u8,
    pub reqs: Vec<ReqSpec>,
}
impl Case for HostsEq {}

pub fn check_hosts_eq(c: &HostsEq, obs: &mut Obs) -> Result<(), String> {
    let line = match c.line_style % 8 {
        // `#` starts a comment anywhere in a hosts line, also directly after the host name
        5 => format!("0.0.0.0 {}#tracker", c.host),
        6 => format!("127.0.0.1 {}# a comment", c.host),
        7 => format!("{}#", c.host),
        0 => format!("0.0.0.0 {}", c.host),
        1 => format!("127.0.0.1\t{}", c.host),
        2 => c.host.clone(),
        3 => format!("0.0.0.0 {} # comment", c.host),
        _ => format!("  0.0.0.0    {}  ", c.host),
    };
    let hosts_opts = ParseOptions { format: FilterFormat::Hosts, ..Default::default() };
    let std_line = format!("||{}^", c.host);
    let a = parse_filter(&line, true, hosts_opts);
    if a.is_err() {
        obs.label("hosts-entry-rejected");
        // A well-formed ASCII host name (LDH/underscore labels, an interior dot, no trailing dot) is
        // rejected as a hosts entry only if `||host^` is rejected as well.
        let wellformed = c.host.is_ascii()
            && c.host.contains('.')
            && c.host.split('.').all(|l| !l.is_empty() && l.bytes().all(|b| b.is_ascii_alphanumeric() || b == b'-' || b == b'_'));
        if wellformed {
            let norm = c.host.to_lowercase();
            let norm = norm.trim_start_matches("www.");
            if norm.contains('.') && parse_filter(&format!("||{}^", norm), true, std_opts()).is_ok() {
                return Err(format!("hosts entry {:?} is rejected ({:?}) although the standard rule \"||{}^\" loads", line, a.err(), norm));
            }
        }
        return Ok(());
    }
    let eh = build_engine_opts(&[line.clone()], false, true, &[], hosts_opts);
    let es = build_engine(&[std_line.clone()], false, true, &[]);
    for r in &c.reqs {
        let Some(q) = mk_request(r) else { continue };
        obs.inner_evals += 1;
        let vh = Verdict::of(&eh.check_network_request(&q));
        let vs = Verdict::of(&es.check_network_request(&q));
        if vh.matched {
            obs.nontrivial = true;
        }
        if vh != vs {
            return Err(format!("hosts entry {:?} vs rule {:?} on {:?}: {:?} vs {:?}", line, std_line, r, vh, vs));
        }
    }
    Ok(())
}

fn decode_hosts_eq(t: &mut Tape) -> HostsEq {
    let (h, reg) = gen::host(t);
    let host = match t.pick(8) {
        0 => reg.clone(),
        1 if t.chance(1, 2) => format!("www.{}", reg),
        // host names are case-insensitive, in both formats
        1 => match t.pick(4) {
            0 => format!("WWW.{}", reg),
            1 => format!("Www.{}", reg.to_uppercase()),
            2 => reg.to_uppercase(),
            _ => format!("wWw.Sub.{}", reg),
        },
        2 => "bücher.example.de".to_string(),
        3 => "пример.рф".to_string(),
        4 => format!("{}.", reg).trim_end_matches('.').to_string(),
        5 if t.chance(1, 2) => format!("a_b.{}", reg),
        // ASCII names with `xn--` labels that are not valid punycode: neither format validates them
        5 => format!("{}{}", t.choose(&["xn--a.", "cdn.xn--0.", "xn--abc-.", "XN--Tracker.", "xn--.", "xn--bcher-kva."]), reg),
        6 if t.chance(1, 2) => {
            // long names: labels up to 70 octets, up to 130 labels (no DNS length limit applies to rules)
            let mut s = String::new();
            if t.chance(1, 2) {
                for i in 0..(1 + t.pick(130)) {
                    s.push_str(&format!("{}{}.", t.choose(&["a", "b", "cd", "x1"]), i));
                }
            } else {
                for _ in 0..(1 + t.pick(3)) {
                    let n = 1 + t.pick(70);
                    s.push_str(&"k".repeat(n));
                    s.push('.');
                }
            }
            s + &reg
        }
        _ => h.clone(),
    };
    let base = host.clone();
    let mut reqs = vec![];
    for _ in 0..(2 + t.pick(6)) {
        let target = match t.pick(7) {
            0 => format!("sub.{}", base),
            1 => format!("x{}", base),
            2 => format!("{}.evil.org", base),
            3 => base.split_once('.').map(|x| x.1.to_string()).unwrap_or(base.clone()),
            4 => base.trim_start_matches("www.").to_string(),
            _ => base.clone(),
        };
        let u = format!("{}://{}{}", t.choose(gen::SCHEMES), target, gen::path(t));
        let source = gen::source_for(t, &u, &[]);
        reqs.push(ReqSpec { url: u, source, rtype: t.choose(gen::REQ_TYPES).to_string() });
    }
    HostsEq { host, line_style: t.pick(8) as u8, reqs }
}

pub fn check_rule_types(c: &FullCase, obs: &mut Obs) -> Result<(), String> {
    let all = std_opts();
    let net_lines: Vec<String> = c.rules.iter().filter(|l| matches!(parse_filter(l, false, all), Ok(ParsedFilter::Network(_)))).cloned().collect();
    let cos_lines: Vec<String> = c.rules.iter().filter(|l| matches!(parse_filter(l, false, all), Ok(ParsedFilter::Cosmetic(_)))).cloned().collect();
    let net_only = ParseOptions { rule_types: RuleTypes::NetworkOnly, ..Default::default() };
    let cos_only = ParseOptions { rule_types: RuleTypes::CosmeticOnly, ..Default::default() };
    obs.inner_evals += 2;
    if bytes_of(&c.rules, net_only, c.optimize, None) != bytes_of(&net_lines, all, c.optimize, None) {
        return Err(format!("NetworkOnly engine differs from the engine of the network lines alone; list {:?}", c.rules));
    }
    if bytes_of(&c.rules, cos_only, c.optimize, None) != bytes_of(&cos_lines, all, c.optimize, None) {
        return Err(format!("CosmeticOnly engine differs from the engine of the cosmetic lines alone; list {:?}", c.rules));
    }
    let res = gen::scriptlet_resources();
    let en = build_engine_opts(&c.rules, false, c.optimize, &res, net_only);
    let ec = build_engine_opts(&c.rules, false, c.optimize, &res, cos_only);
    for p in &c.pages {
        let u = en.url_cosmetic_resources(p);
        if !u.hide_selectors.is_empty() || !u.procedural_actions.is_empty() || !u.exceptions.is_empty() || !u.injected_script.is_empty() {
            return Err(format!("NetworkOnly engine returned cosmetic resources for {}: {:?}", p, u));
        }
        if !en.hidden_class_id_selectors(&c.classes, &c.ids, &HashSet::new()).is_empty() {
            return Err("NetworkOnly engine returned class/id selectors".into());
        }
        if ec.url_cosmetic_resources(p).generichide {
            return Err(format!("CosmeticOnly engine reports generichide for {}", p));
        }
    }
    for r in &c.reqs {
        if let Some(q) = mk_request(r) {
            let v = Verdict::of(&ec.check_network_request(&q));
            if v.matched || v.filter || v.exception || v.redirect.is_some() || v.rewritten.is_some() || ec.get_csp_directives(&q).is_some() {
                return Err(format!("CosmeticOnly engine gave a network answer for {:?}: {:?}", r, v));
            }
        }
    }
    // the same options in the hosts format: hosts entries are network rules, so a CosmeticOnly load
    // of a hosts file is empty and a NetworkOnly load equals the plain load
    let hosts_lines: Vec<String> = c.reqs.iter().filter_map(|r| mk_request(r)).map(|q| format!("0.0.0.0 {}", q.hostname)).filter(|l| !l.ends_with(' ')).collect();
    if !hosts_lines.is_empty() {
        let h = |rt: RuleTypes| ParseOptions { format: FilterFormat::Hosts, rule_types: rt, ..Default::default() };
        obs.inner_evals += 2;
        if bytes_of(&hosts_lines, h(RuleTypes::CosmeticOnly), c.optimize, None) != bytes_of(&[], all, c.optimize, None) {
            return Err(format!("a hosts file {:?} loaded with CosmeticOnly is not empty", hosts_lines));
        }
        if bytes_of(&hosts_lines, h(RuleTypes::NetworkOnly), c.optimize, None) != bytes_of(&hosts_lines, h(RuleTypes::All), c.optimize, None) {
            return Err(format!("a hosts file {:?} loaded with NetworkOnly differs from the plain load", hosts_lines));
        }
        obs.label("hosts-rule-types");
    }
    if !net_lines.is_empty() && !cos_lines.is_empty() {
        obs.nontrivial = true;
    }
    Ok(())
}

// ---- metadata -----------------------------------------------------------------------------------

#[derive(Clone, Debug, Serialize, Deserialize)]
pub struct MetaCase {
    pub text: String,
}
impl Case for MetaCase {}

pub fn check_meta(c: &MetaCase, obs: &mut Obs) -> Result<(), String> {
    let m = guard(|| read_list_metadata(&c.text)).map_err(|p| format!("read_list_metadata panicked: {} (len {})", p, c.text.len()))?;
    obs.inner_evals += 1;
    // model for the simple case: all header lines lie well inside the first 1024 bytes
    let mut title = None;
    let mut consumed = 0usize;
    for l in c.text.lines() {
        consumed += l.len() + 1;
        if consumed > 900 {
            title = None;
            break;
        }
        if l.starts_with('!') {
            if title.is_none() {
                if let Some(v) = l.strip_prefix("! Title: ") {
                    title = Some(Some(v.to_string()));
                }
            }
        } else if l.starts_with('[') {
            continue;
        } else {
            break;
        }
    }
    if consumed <= 900 {
        let want = title.flatten();
        if m.title != want {
            return Err(format!("title {:?}, expected {:?} for {:?}", m.title, want, &c.text[..c.text.len().min(120)]));
        }
    }
    if c.text.len() > 1024 && !c.text.is_char_boundary(1024) {
        obs.nontrivial = true;
        obs.label("multibyte-char-straddles-1024");
    }
    Ok(())
}

fn decode_meta(t: &mut Tape) -> MetaCase {
    let mut s = String::new();
    for _ in 0..t.pick(5) {
        match t.pick(6) {
            0 => s.push_str(&format!("! Title: {}\n", gen::word(t))),
            1 if t.chance(1, 2) => {
                // amounts around every integer width and the multiplications a parser may perform
                let n = t.choose(&["0", "1", "14", "15", "336", "337", "255", "256", "2730", "2731", "2745", "5461", "10923", "65535", "65536", "89478485", "4294967295", "4294967296", "18446744073709551616", "-1", "+5", "3.5", "1e3", "০১", ""]);
                s.push_str(&format!("! Expires:{}{} {}\n", t.choose(&[" ", "", "  "]), n, t.choose(&["days", "hours", "day", "hour", "weeks", "", "days (update frequency)"])));
            }
            1 => s.push_str(&format!("! Expires: {} {}\n", t.pick(400), t.choose(&["days", "hours", "day", "hour", "weeks", ""]))),
            2 => s.push_str("[Adblock Plus 2.0]\n"),
            3 => s.push_str(&format!("! Homepage: https://{}/\n", gen::word(t))),
            4 => s.push_str(&format!("! {}€ü😀\n", gen::word(t))),
            _ => s.push_str("!\n"),
        }
    }
    if t.chance(1, 2) {
        // pad a comment so that a multi-byte char straddles byte 1024
        let target = 1021 + t.pick(4);
        if s.len() + 3 < target {
            s.push_str("! ");
            while s.len() < target {
                s.push('x');
            }
            s.push_str(t.choose(&["é", "€", "😀", "\u{2028}"]));
            s.push_str("tail\n! Title: late\n");
        }
    }
    s.push_str("||example.com^\n");
    MetaCase { text: s }
}

pub fn check(ctx: &mut Ctx) {
    ctx.rule = "mutate: for each seed rule (one per distinct shape harvested from the lists under /repo/data + 60 hand-written exotic rules) EVERY char offset x 28 inserted/replaced strings (multi-byte chars, U+2028, combining mark, NUL, TAB, '$ # | , ~ * \\ ( )' ...) + every prefix/suffix; lines: random splices of rule fragments, option keywords and arbitrary code points. Each line goes through parse_filter (2 formats x 3 rule-type options x debug x permission byte), NetworkFilter::parse, CosmeticFilter::parse, parse_hosts_style, read_list_metadata, FilterSet::add_filter[_list], and, when it parses, ids/tokens/matching, engine build (optimise on/off), network/csp/cosmetic queries and a serialize round trip: nothing may panic. independence: list + injected lines that the parser rejects individually => identical serialized engine (also with the list's own rejected lines deleted, and through add_filter_list with LF/CRLF). hosts-eq: hosts entry vs '||host^' (incl. '#' comments glued to the name, names of up to 130 labels, bogus xn-- labels). multi-call: 2-4 add_filters calls on ONE FilterSet with different formats / rule-type options / permissions over a shared pool of lines (so the same text arrives under several options) vs the same calls with each call's individually rejected lines deleted. rule-types: NetworkOnly/CosmeticOnly engines vs engines of the lines of one kind (standard format), and a hosts file built from the request hosts loaded with CosmeticOnly (must be empty) / NetworkOnly (must equal the plain load). meta: header blocks with multi-byte chars straddling byte 1024 and `Expires` amounts around every integer width. Non-trivial (mutate/lines) = mutated line that still parses or is rejected by a rule parser rather than by kind detection.".into();
    ctx.assumptions = vec!["hosts equivalence is asserted for hosts spelled in lower case (upper-case hosts only for totality)".into()];
    let all_seeds = seeds(ctx.tier.pick(400, 1500));
    let n_seeds = all_seeds.len() as u64;
    let stride = ctx.tier.pick(6u64, 1u64);
    let off = ctx.seed % stride;
    let seeds_ref = &all_seeds;
    run_indexed(ctx, "mutate", n_seeds / stride, &|k| seeds_ref.get((k * stride + off) as usize).map(|s| MutCase { seed: s.clone(), only: None }), &check_mut);
    ctx.extra.insert("seed_rules".into(), json!({"harvested": n_seeds, "enumerated": n_seeds / stride}));
    let n = ctx.tier.pick(20_000, 1_000_000);
    drive(ctx, "lines", n, 60, &|t| decode_line(t, seeds_ref), &check_line);
    let n = ctx.tier.pick(6_000, 300_000);
    drive(ctx, "independence", n, 800, &|t| decode_indep(t, seeds_ref), &check_indep);
    let n = ctx.tier.pick(10_000, 400_000);
    drive(ctx, "hosts-eq", n, 200, &decode_hosts_eq, &check_hosts_eq);
    let n = ctx.tier.pick(12_000, 200_000);
    drive(ctx, "multi-call", n, 900, &|t| decode_multi(t, seeds_ref), &check_multi);
    let n = ctx.tier.pick(5_000, 200_000);
    drive(ctx, "rule-types", n, 900, &|t| gen::full_case(t, &NetCfg { max_rules: 16, ..Default::default() }, 4), &check_rule_types);
    let n = ctx.tier.pick(10_000, 300_000);
    drive(ctx, "meta", n, 60, &decode_meta, &check_meta);
    let _ = Tier::Quick;
}

pub fn replay(ctx: &mut Ctx, v: &Value) {
    match v.get("check").and_then(|c| c.as_str()) {
        Some("lines") => replay_file::<LineCase>(ctx, v, &check_line),
        Some("independence") => replay_file::<IndepCase>(ctx, v, &check_indep),
        Some("hosts-eq") => replay_file::<HostsEq>(ctx, v, &check_hosts_eq),
        Some("multi-call") => replay_file::<MultiCase>(ctx, v, &check_multi),
        Some("rule-types") => replay_file::<FullCase>(ctx, v, &check_rule_types),
        Some("meta") => replay_file::<MetaCase>(ctx, v, &check_meta),
        _ => replay_file::<MutCase>(ctx, v, &check_mut),
    }
}
