//! C01 — engine verdict == rule-by-rule evaluation of the loaded list.

use crate::eng::*;
use crate::gen::{self, NetCase, NetCfg};
use crate::run::{drive, replay_file, Ctx, Obs, Tape};
use adblock::lists::{FilterFormat, ParseOptions};
use serde_json::Value;
use std::collections::HashSet;

pub fn approx_tokens(url: &str) -> usize {
    let mut n = 0;
    let mut inside = false;
    for c in url.chars() {
        if c.is_alphanumeric() || c == '%' {
            if !inside {
                inside = true;
                n += 1;
            }
        } else {
            inside = false;
        }
    }
    n
}

pub fn check_case(c: &NetCase, obs: &mut Obs) -> Result<(), String> {
    check_case_fmt(c, obs, FilterFormat::Standard)
}

pub fn check_case_hosts(c: &NetCase, obs: &mut Obs) -> Result<(), String> {
    check_case_fmt(c, obs, FilterFormat::Hosts)
}

fn check_case_fmt(c: &NetCase, obs: &mut Obs, format: FilterFormat) -> Result<(), String> {
    let res = gen::std_resources();
    let opts = ParseOptions { format, ..Default::default() };
    let mut engine = build_engine_opts(&c.rules, false, false, &res, opts);
    let tag_refs: Vec<&str> = c.tags.iter().map(|s| s.as_str()).collect();
    engine.use_tags(&tag_refs);
    // the same list through the default (optimising) constructor and, one rule at a time, through
    // Blocker::add_filter: the rule-by-rule specification is the same for all three
    let mut engine_opt = build_engine_opts(&c.rules, false, true, &res, opts);
    engine_opt.use_tags(&tag_refs);
    let mut refused = vec![];
    let incremental = incremental_blocker(&c.rules, opts, &c.tags, &mut refused);
    let store = adblock::resources::ResourceStorage::from_resources(res.iter().cloned());
    let tags: HashSet<String> = c.tags.iter().cloned().collect();
    let parsed = parse_network_opts(&c.rules, opts);
    let active = active_rules(&parsed);
    if incremental.is_some() {
        obs.label("incremental-blocker");
    }
    for r in &c.reqs {
        if approx_tokens(&r.url) >= 120 {
            obs.exclude("url-with-120+-tokens");
            continue;
        }
        let Some(req) = mk_request(r) else { continue };
        obs.inner_evals += 1;
        let hits = hits_of(&active, &req);
        let spec = combine(&hits, &tags, &req, &r.url, &res);
        let got = Verdict::of(&engine.check_network_request(&req));
        if !hits.is_empty() {
            obs.nontrivial = true;
            obs.label("hit");
            if hits.len() > 1 {
                obs.label("multi-hit");
            }
        }
        if got.matched {
            obs.label("blocked");
        }
        if got.exception {
            obs.label("exception");
        }
        if got.important {
            obs.label("important");
        }
        if got.redirect.is_some() {
            obs.label("redirect");
        }
        if got.rewritten.is_some() {
            obs.label("rewritten");
        }
        if let Err(e) = spec.agrees(&got) {
            let hl: Vec<&str> = hits.iter().map(|p| p.line.as_str()).collect();
            return Err(format!("request {:?}: {} (rules matching individually: {:?})", r, e, hl));
        }
        let spec_csp = combine_csp(&hits, &tags, &req);
        let got_csp = engine.get_csp_directives(&req);
        let got_set = got_csp.as_ref().map(|s| split_csp(s, &hits));
        if spec_csp.is_some() {
            obs.label("csp");
        }
        if spec_csp != got_set {
            return Err(format!("request {:?}: csp spec {:?} engine {:?}", r, spec_csp, got_csp));
        }
        let hl = || hits.iter().map(|p| p.line.as_str()).collect::<Vec<&str>>();
        let got = Verdict::of(&engine_opt.check_network_request(&req));
        if let Err(e) = spec.agrees(&got) {
            return Err(format!("request {:?} (optimising constructor): {} (rules matching individually: {:?})", r, e, hl()));
        }
        let got_set = engine_opt.get_csp_directives(&req).as_ref().map(|s| split_csp(s, &hits));
        if spec_csp != got_set {
            return Err(format!("request {:?} (optimising constructor): csp spec {:?} engine {:?}", r, spec_csp, got_set));
        }
        if let Some(b) = &incremental {
            let got = Verdict::of(&b.check(&req, &store));
            if let Err(e) = spec.agrees(&got) {
                return Err(format!("request {:?} (rules added one at a time with Blocker::add_filter; refused as duplicates: {:?}): {} (rules matching individually: {:?})", r, refused, e, hl()));
            }
            let got_set = b.get_csp_directives(&req).as_ref().map(|s| split_csp(s, &hits));
            if spec_csp != got_set {
                return Err(format!("request {:?} (rules added one at a time with Blocker::add_filter): csp spec {:?} blocker {:?}", r, spec_csp, got_set));
            }
        }
    }
    Ok(())
}

/// Large same-shape groups: engine (optimisation off AND on) vs the per-rule scan. The scan
/// keeps one RegexManager per rule (each parsed rule keeps its address), so every rule's regex is
/// compiled once and the scan does not depend on how the library caches many regexes.
pub fn check_big_group(c: &NetCase, obs: &mut Obs) -> Result<(), String> {
    use adblock::filters::network::NetworkMatchable;
    let res = gen::std_resources();
    let tag_refs: Vec<&str> = c.tags.iter().map(|s| s.as_str()).collect();
    let tags: HashSet<String> = c.tags.iter().cloned().collect();
    let parsed = parse_network(&c.rules);
    let active = active_rules(&parsed);
    // one manager per rule: the scan must not depend on how the library manages many regexes
    let mut rms: Vec<adblock::regex_manager::RegexManager> = active.iter().map(|_| adblock::regex_manager::RegexManager::default()).collect();
    let reqs: Vec<_> = c.reqs.iter().filter_map(|r| mk_request(r).map(|q| (r, q))).collect();
    let specs: Vec<_> = reqs
        .iter()
        .map(|(r, q)| {
            let mut hits: Vec<&Parsed> = vec![];
            for (p, rm) in active.iter().zip(rms.iter_mut()) {
                if p.f.matches(q, rm) {
                    hits.push(*p);
                }
            }
            (hits.len(), combine(&hits, &tags, q, &r.url, &res))
        })
        .collect();
    for optimize in [false, true] {
        let mut engine = build_engine(&c.rules, false, optimize, &res);
        engine.use_tags(&tag_refs);
        // two passes: the second one runs against whatever the first left in the engine's caches
        for pass in 0..2 {
            for ((r, q), (nh, spec)) in reqs.iter().zip(specs.iter()) {
                obs.inner_evals += 1;
                if *nh > 0 {
                    obs.nontrivial = true;
                }
                let got = Verdict::of(&engine.check_network_request(q));
                if let Err(e) = spec.agrees(&got) {
                    return Err(format!("{} rules, optimize={}, pass {}: request {:?}: {}", c.rules.len(), optimize, pass, r, e));
                }
            }
        }
    }
    obs.label(match c.rules.len() {
        0..=16 => "group<=16",
        17..=64 => "group17-64",
        65..=128 => "group65-128",
        129..=256 => "group129-256",
        257..=512 => "group257-512",
        _ => "group>512",
    });
    Ok(())
}

pub fn decode(t: &mut Tape) -> NetCase {
    gen::net_case(t, &NetCfg::default())
}

pub fn decode_big(t: &mut Tape) -> NetCase {
    gen::net_case(t, &NetCfg { max_rules: 150, max_reqs: 12, ..Default::default() })
}

pub fn decode_hosts(t: &mut Tape) -> NetCase {
    gen::hosts_case(t)
}

pub fn check(ctx: &mut Ctx) {
    ctx.rule = "lists of 1-16 (sub-check big: up to 150) network rules cut from a pool of 1-4 generated URLs at arbitrary byte offsets (plain, |, ||host, ^/*, /regex/, options, exceptions, tags, badfilter twins, duplicates, junk lines) x tag subset x 1-8 requests from the same pool (1/3 perturbed by one edit); hosts: hosts-format lists; shared-token: 2-25 rules sharing one token with per-rule variation of options/tags/exception; tokenless: rules with no indexable token (fallback bucket); big-group: 2-800 same-shape rules (sizes around 16/32/64/128/256/512) in one bucket with one request per rule, engine built with optimisation off and on, two passes; long-url: URLs of 40-126 tokens and hosts of up to 14 labels with rules cut from the tail of the URL; real-lists: slices of the lists under /repo/data. A case is non-trivial when at least one parsed rule matches a request in the per-rule linear scan; distinct = distinct (rules, tags, requests) texts.".into();
    ctx.assumptions = vec![
        "per-rule oracle = NetworkFilter::matches with a fresh RegexManager on every successfully parsed line".into(),
        "badfilter cancellation by the library's own ids (C04 checks those ids)".into(),
        "no 64-bit seahash collision inside a case".into(),
        "tag+redirect / tag+removeparam / tag+generichide are documented as unsupported and not generated".into(),
    ];
    let n = ctx.tier.pick(200_000, 2_000_000);
    drive(ctx, "std", n, 600, &decode, &check_case);
    let n = ctx.tier.pick(8_000, 100_000);
    drive(ctx, "big", n, 4000, &decode_big, &check_case);
    let n = ctx.tier.pick(40_000, 400_000);
    drive(ctx, "hosts", n, 300, &decode_hosts, &check_case_hosts);
    // many rules sharing one token (multi-rule buckets, rules differing only by tag/options) and
    // rules without any token (fallback bucket)
    let n = ctx.tier.pick(100_000, 1_000_000);
    drive(ctx, "shared-token", n, 400, &|t| gen::fuse_case(t), &check_case);
    let n = ctx.tier.pick(60_000, 600_000);
    drive(ctx, "tokenless", n, 300, &|t| gen::tokenless_case(t), &check_case);
    let n = ctx.tier.pick(40_000, 400_000);
    drive(ctx, "long-url", n, 600, &|t| gen::long_url_case(t), &check_case);
    let n = ctx.tier.pick(400, 8_000);
    drive(ctx, "big-group", n, 120, &|t| gen::big_group_case(t), &check_big_group);
    // deterministic slices of the real lists under /repo/data, requests derived from their own rules
    let (per, len) = ctx.tier.pick((2, 1500), (10, 6000));
    for fc in super::c08::real_list_slices(ctx, per, len) {
        let mut reqs = fc.reqs.clone();
        // the same URLs as other types / from the same site, and perturbed
        let extra: Vec<_> = reqs.iter().take(20).map(|r| gen::ReqSpec { url: r.url.replace("https://", "https://x"), source: r.url.clone(), rtype: "image".into() }).collect();
        reqs.extend(extra);
        let nc = NetCase { rules: fc.rules.into_iter().filter(|r| !r.contains("##") && !r.contains("#@#") && !r.contains("#?#")).collect(), tags: vec![], reqs };
        crate::run::run_one(ctx, "real-lists", &nc, &check_case);
    }
}

pub fn replay(ctx: &mut Ctx, v: &Value) {
    match v.get("check").and_then(|c| c.as_str()) {
        Some("hosts") => replay_file::<NetCase>(ctx, v, &check_case_hosts),
        Some("big-group") => replay_file::<NetCase>(ctx, v, &check_big_group),
        _ => replay_file::<NetCase>(ctx, v, &check_case),
    }
}
