//! C12 — requests are normalised consistently: host, party and scheme classification.

use crate::eng::*;
use crate::gen::{self, NetCfg};
use crate::run::{drive, guard, replay_file, Case, Ctx, Obs, Tape};
use adblock::request::{Request, RequestType};
use serde::{Deserialize, Serialize};
use serde_json::Value;

#[derive(Clone, Debug, Serialize, Deserialize)]
pub struct AnyCase {
    pub url: String,
    pub source: String,
    pub rtype: String,
    pub hostname: String,
    pub source_hostname: String,
    pub third: bool,
}
impl Case for AnyCase {
    fn smaller(&self) -> Vec<Self> {
        let mut v = vec![];
        let cs: Vec<char> = self.url.chars().collect();
        for i in 0..cs.len() {
            let mut d = cs.clone();
            d.remove(i);
            v.push(AnyCase { url: d.into_iter().collect(), ..self.clone() });
        }
        if !self.source.is_empty() {
            v.push(AnyCase { source: String::new(), ..self.clone() });
        }
        v
    }
}

pub fn check_any(c: &AnyCase, obs: &mut Obs) -> Result<(), String> {
    let r = guard(|| Request::new(&c.url, &c.source, &c.rtype)).map_err(|p| format!("Request::new({:?}, {:?}, {:?}) panicked: {}", c.url, c.source, c.rtype, p))?;
    obs.inner_evals += 2;
    let p = guard(|| Request::preparsed(&c.url, &c.hostname, &c.source_hostname, &c.rtype, c.third)).map_err(|p| format!("Request::preparsed({:?}, ..) panicked: {}", c.url, p))?;
    // a pre-parsed request is eligible for matching exactly when its URL's scheme is one of the
    // four supported ones (a URL without any ':' is documented to be taken as https)
    {
        // (pre-parsed URLs are normalised: only lower-case scheme spellings are consistent tuples)
        let scheme = c.url.split_once(':').map(|x| x.0.to_string());
        let consistent = scheme.as_ref().map_or(true, |s| !s.is_empty() && s.bytes().all(|b| b.is_ascii_lowercase() || b.is_ascii_digit() || b"+.-".contains(&b)));
        let want = match &scheme {
            None => true,
            Some(s) => ["http", "https", "ws", "wss"].contains(&s.as_str()),
        };
        if consistent && p.is_supported != want {
            return Err(format!("Request::preparsed({:?}, ..): is_supported = {} but the URL's scheme is {:?}", c.url, p.is_supported, scheme));
        }
    }
    // whatever was built can be queried without panicking
    let rules: Vec<String> = vec!["||example.com^".into(), "/ads/*^x".into(), "@@/a$domain=example.com".into(), "*$removeparam=a".into(), "||example.com^$csp=x".into()];
    let e = build_engine(&rules, false, true, &[]);
    guard(|| {
        if let Ok(q) = &r {
            let _ = e.check_network_request(q);
            let _ = e.get_csp_directives(q);
        }
        let _ = e.check_network_request(&p);
        let _ = e.get_csp_directives(&p);
        let _ = e.url_cosmetic_resources(&c.url);
    })
    .map_err(|pm| format!("querying with the request built from {:?} panicked: {}", c.url, pm))?;
    if let Ok(q) = &r {
        obs.nontrivial = true;
        obs.label("parses");
        // invariants that hold for every URL that parses
        let scheme = q.url.split(':').next().unwrap_or("");
        let supported = ["http", "https", "ws", "wss"].contains(&scheme);
        if q.is_supported != supported {
            return Err(format!("{:?}: is_supported={} but normalised scheme is {:?}", c.url, q.is_supported, scheme));
        }
        if (scheme == "ws" || scheme == "wss") && q.request_type != RequestType::Websocket {
            return Err(format!("{:?}: websocket scheme but request type {:?}", c.url, q.request_type));
        }
        if !host_span_ok(&q.url, &q.hostname) {
            return Err(format!("{:?}: reported hostname {:?} is not the host component of the normalised URL {:?}", c.url, q.hostname, q.url));
        }
        if !q.hostname.is_ascii() {
            return Err(format!("{:?}: hostname {:?} is not ASCII (IDN hosts must be punycoded)", c.url, q.hostname));
        }
    }
    Ok(())
}

/// independent scanner: `scheme:[//][userinfo@]host[:port][/?#...]`
fn host_span_ok(url: &str, hostname: &str) -> bool {
    // URL parsing removes ASCII tab and newline everywhere; the library keeps them after the host
    let stripped: String = url.chars().filter(|c| !matches!(c, '\t' | '\n' | '\r')).collect();
    let url = stripped.as_str();
    let Some(i) = url.find(':') else { return false };
    let rest = &url[i + 1..];
    let Some(rest) = rest.strip_prefix("//") else { return hostname.is_empty() };
    let special = ["http", "https", "ws", "wss", "ftp", "gopher"].contains(&&url[..i]);
    let end = rest.find(|c| c == '/' || c == '?' || c == '#' || (special && c == '\\')).unwrap_or(rest.len());
    let auth = &rest[..end];
    let hostport = match auth.rfind('@') {
        Some(k) => &auth[k + 1..],
        None => auth,
    };
    // the host ends at the first ':' that is not inside square brackets
    let mut inside = false;
    let mut host_end = hostport.len();
    for (k, ch) in hostport.char_indices() {
        match ch {
            '[' => inside = true,
            ']' => inside = false,
            ':' if !inside => {
                host_end = k;
                break;
            }
            _ => {}
        }
    }
    &hostport[..host_end] == hostname
}

fn decode_any(t: &mut Tape) -> AnyCase {
    let punct = [":", "/", "//", "@", "[", "]", "\\", "?", "#", "%", ".", "..", " ", "\t", "\n", "\r", "\0", "é", "😀", "\u{2028}", "xn--", "http", "https", "ws", "wss", "ftp", "file", "data", "-", "_", "+", "://"];
    let mk = |t: &mut Tape| -> String {
        match t.pick(5) {
            0 => {
                let mut s = String::new();
                for _ in 0..t.pick(10) {
                    if t.chance(1, 2) { s.push_str(t.choose(&punct)); } else { s.push_str(&gen::word(t)); }
                }
                s
            }
            1 => {
                let u = gen::url(t);
                let cs: Vec<char> = u.chars().collect();
                let i = t.pick(cs.len() + 1);
                format!("{}{}{}", cs[..i].iter().collect::<String>(), t.choose(&punct), cs[i..].iter().collect::<String>())
            }
            2 => {
                let mut s = String::new();
                for _ in 0..t.pick(12) {
                    if let Some(c) = char::from_u32(t.next() as u32 % 0x500) { s.push(c); }
                }
                s
            }
            3 => format!("{}://{}{}{}/{}", t.choose(&["http", "HTTPS", "ws", "wss", "ftp", "x-y.z", "data", "file", "blob"]), t.choose(&["", "u@", "u:p@", "@", "a@b@"]), t.choose(&["example.com", "[::1]", "[::1", "127.0.0.1", "a..b", ".", "EXAMPLE.com.", "bücher.de", "xn--zz", "a\tb.com", "%41.com", "a b.com", ""]), t.choose(&["", ":80", ":", ":x"]), gen::word(t)),
            _ => gen::url(t),
        }
    };
    let url = mk(t);
    let source = if t.chance(1, 3) { String::new() } else { mk(t) };
    AnyCase { url, source, rtype: if t.chance(1, 2) { t.choose(gen::REQ_TYPES).to_string() } else { gen::word(t) }, hostname: gen::host(t).0, source_hostname: if t.chance(1, 2) { gen::host(t).0 } else { String::new() }, third: t.chance(1, 2) }
}

// ---- constructive URLs --------------------------------------------------------------------------

#[derive(Clone, Debug, Serialize, Deserialize)]
pub struct UrlCase {
    pub scheme: String,
    pub userinfo: Option<String>,
    /// host as written (may be IDN / IP literal)
    pub host: String,
    /// expected normalised host and its registrable domain
    pub host_ascii: String,
    pub reg: String,
    pub port: Option<u16>,
    pub tail: String,
    /// source: (url, Some(registrable domain)) or unparsable/absent (None)
    pub source: String,
    pub source_reg: Option<String>,
    pub rtype: String,
    /// C0-control / space padding around the URL and the source (stripped by URL parsing)
    #[serde(default)]
    pub pad: (String, String, String, String),
    /// ASCII tab / LF / CR inserted at these (scaled) positions of the URL: URL parsing removes them
    #[serde(default)]
    pub ign: Vec<(u16, u8)>,
}
impl Case for UrlCase {
    fn smaller(&self) -> Vec<Self> {
        let mut v = vec![];
        for i in 0..self.ign.len() {
            let mut c = self.clone();
            c.ign.remove(i);
            v.push(c);
        }
        if self.userinfo.is_some() {
            v.push(UrlCase { userinfo: None, ..self.clone() });
        }
        if self.port.is_some() {
            v.push(UrlCase { port: None, ..self.clone() });
        }
        if self.tail != "/" {
            v.push(UrlCase { tail: "/".into(), ..self.clone() });
        }
        if self.pad != Default::default() {
            v.push(UrlCase { pad: Default::default(), ..self.clone() });
        }
        v
    }
}

/// curated hosts with the registrable domain known from the public-suffix rules they exercise
const HOSTS: &[(&str, &str)] = &[
    ("example.com", "example.com"), ("www.example.com", "example.com"), ("a.b.c.example.com", "example.com"), ("example.co.uk", "example.co.uk"),
    ("x.example.co.uk", "example.co.uk"), ("shop.example.com.au", "example.com.au"), ("user.github.io", "user.github.io"), ("a.user.github.io", "user.github.io"),
    ("blog.blogspot.com", "blog.blogspot.com"), ("x.blog.blogspot.com", "blog.blogspot.com"), ("example.de", "example.de"), ("cdn.example.net", "example.net"),
    ("a.b.ck", "a.b.ck"), ("x.a.b.ck", "a.b.ck"), ("www.ck", "www.ck"), ("sub.www.ck", "www.ck"), ("x.y.kawasaki.jp", "x.y.kawasaki.jp"), ("city.kawasaki.jp", "city.kawasaki.jp"),
    ("a.city.kawasaki.jp", "city.kawasaki.jp"), ("host.unknowntld", "host.unknowntld"), ("a.host.unknowntld", "host.unknowntld"), ("localhost", "localhost"),
    ("co.uk", "co.uk"), ("github.io", "github.io"), ("127.0.0.1", "127.0.0.1"), ("[::1]", "[::1]"), ("[2001:db8::1]", "[2001:db8::1]"), ("10.0.0.1", "10.0.0.1"),
    ("1.bp.example.com", "example.com"), ("0.gravatar.example.org", "example.org"), ("3d.shop.example.co.uk", "example.co.uk"), ("4shared.example.net", "example.net"), ("9.9x.example.de", "example.de"),
    ("example.org", "example.org"), ("ads.example.org", "example.org"), ("a-b.example.org", "example.org"), ("xn--bcher-kva.de", "xn--bcher-kva.de"),
];
const IDN_HOSTS: &[(&str, &str)] = &[("bücher.de", "bücher.de"), ("www.bücher.de", "bücher.de"), ("пример.рф", "пример.рф"), ("sub.пример.рф", "пример.рф"), ("münchen.example.com", "example.com"), ("例え.jp", "例え.jp")];

fn ascii(h: &str) -> String {
    if h.is_ascii() { h.to_string() } else { idna::domain_to_ascii(h).unwrap_or_else(|_| h.to_string()) }
}

pub fn check_url(c: &UrlCase, obs: &mut Obs) -> Result<(), String> {
    let mut url = format!("{}://", c.scheme);
    if let Some(u) = &c.userinfo {
        url.push_str(u);
        url.push('@');
    }
    url.push_str(&c.host);
    if let Some(p) = c.port {
        url.push_str(&format!(":{}", p));
    }
    url.push_str(&c.tail);
    for (pos, which) in &c.ign {
        let cs: Vec<char> = url.chars().collect();
        let at = (*pos as usize * (cs.len() + 1)) >> 16;
        let ch = ['\t', '\n', '\r'][*which as usize % 3];
        url = cs[..at].iter().chain(std::iter::once(&ch)).chain(cs[at..].iter()).collect();
    }
    // leading/trailing C0 controls and spaces are not part of a URL
    let url = format!("{}{}{}", c.pad.0, url, c.pad.1);
    let source = if c.source.is_empty() { String::new() } else { format!("{}{}{}", c.pad.2, c.source, c.pad.3) };
    let c = &UrlCase { source, ..c.clone() };
    let r = guard(|| Request::new(&url, &c.source, &c.rtype)).map_err(|p| format!("Request::new({:?}) panicked: {}", url, p))?;
    obs.inner_evals += 1;
    let q = match r {
        Ok(q) => q,
        Err(e) => return Err(format!("a well-formed URL {:?} was rejected: {:?}", url, e)),
    };
    if q.hostname != c.host_ascii {
        return Err(format!("{:?}: hostname {:?}, expected {:?}", url, q.hostname, c.host_ascii));
    }
    if !host_span_ok(&q.url, &q.hostname) {
        return Err(format!("{:?}: hostname {:?} is not the host component of the normalised URL {:?}", url, q.hostname, q.url));
    }
    let scheme_l = c.scheme.to_ascii_lowercase();
    // the normalised URL is the input with the scheme lower-cased and the host in its ASCII form;
    // everything behind the authority is kept as written (only C0 controls / spaces at the two ends
    // and ASCII tab / LF / CR anywhere are dropped) - in particular a trailing DEL (U+007F) stays
    if c.userinfo.is_none() {
        let strip = |x: &str| x.chars().filter(|ch| !matches!(ch, '\t' | '\n' | '\r')).collect::<String>();
        let want = format!("{}://{}{}{}", scheme_l, c.host_ascii, c.port.map(|p| format!(":{}", p)).unwrap_or_default(), strip(&c.tail));
        if strip(&q.url) != want {
            return Err(format!("{:?}: normalised URL {:?}, expected {:?}", url, q.url, want));
        }
    }
    let supported = ["http", "https", "ws", "wss"].contains(&scheme_l.as_str());
    if q.is_supported != supported {
        return Err(format!("{:?}: is_supported = {}", url, q.is_supported));
    }
    if q.is_http != (scheme_l == "http") || q.is_https != (scheme_l == "https") {
        return Err(format!("{:?}: is_http/is_https = {}/{}", url, q.is_http, q.is_https));
    }
    if (scheme_l == "ws" || scheme_l == "wss") && q.request_type != RequestType::Websocket {
        return Err(format!("{:?}: websocket scheme but type {:?}", url, q.request_type));
    }
    let want_third = match &c.source_reg {
        None => true,
        Some(sr) => ascii(sr) != ascii(&c.reg),
    };
    if q.is_third_party != want_third {
        return Err(format!("{:?} from {:?}: is_third_party = {}, expected {} (registrable domains {:?} vs {:?})", url, c.source, q.is_third_party, want_third, c.reg, c.source_reg));
    }
    // pre-parsed construction behaves identically
    let src_host = adblock::url_parser::parse_url(&c.source).map(|p| p.hostname().to_string()).unwrap_or_default();
    let p = Request::preparsed(&q.url, &q.hostname, &src_host, &c.rtype, q.is_third_party);
    let same = p.request_type == q.request_type && p.is_http == q.is_http && p.is_https == q.is_https && p.is_supported == q.is_supported && p.is_third_party == q.is_third_party && p.url == q.url && p.hostname == q.hostname && p.source_hostname_hashes == q.source_hostname_hashes;
    if !same {
        return Err(format!("{:?}: Request::preparsed differs from Request::new: {:?} vs {:?}", url, p, q));
    }
    let rules: Vec<String> = vec![
        format!("||{}^", c.host_ascii),
        format!("||{}^$third-party", ascii(&c.reg)),
        format!("@@*$domain={}", c.source_reg.as_deref().map(ascii).unwrap_or("none.example".into())),
        "/path/*$script,1p".into(),
        "|https://$image".into(),
        "*$websocket".into(),
        format!("||{}^$csp=default-src x", c.host_ascii),
    ];
    let e = build_engine(&rules, false, true, &[]);
    let (vq, vp) = (Verdict::of(&e.check_network_request(&q)), Verdict::of(&e.check_network_request(&p)));
    if vq != vp || e.get_csp_directives(&q) != e.get_csp_directives(&p) {
        return Err(format!("{:?}: verdict differs between Request::new and Request::preparsed: {:?} vs {:?}", url, vq, vp));
    }
    let interesting = c.userinfo.is_some() || c.port.is_some() || !c.host.is_ascii() || c.host.starts_with('[') || c.host.chars().next().map(|x| x.is_ascii_digit()).unwrap_or(false) || c.reg.matches('.').count() >= 2 || c.host.matches('.').count() >= 3;
    let naive = |h: &str| h.rsplitn(3, '.').take(2).collect::<Vec<_>>().join(".");
    let naive_wrong = c.source_reg.as_ref().map(|sr| (naive(&c.host_ascii) != naive(&ascii(sr))) != want_third).unwrap_or(false);
    if interesting || naive_wrong {
        obs.nontrivial = true;
    }
    if naive_wrong { obs.label("last-two-labels-rule-would-be-wrong"); }
    if c.pad != Default::default() { obs.label("c0-padding"); }
    if c.userinfo.is_some() { obs.label("userinfo"); }
    if c.port.is_some() { obs.label("port"); }
    if !c.host.is_ascii() { obs.label("idn"); }
    if want_third { obs.label("third-party"); } else { obs.label("first-party"); }
    Ok(())
}

fn decode_url(t: &mut Tape) -> UrlCase {
    let (host, reg) = if t.chance(1, 5) { t.choose(IDN_HOSTS) } else { t.choose(HOSTS) };
    let mut scheme = t.choose(&["http", "https", "https", "ws", "wss", "ftp", "HTTP", "Https", "gopher", "custom"]).to_string();
    if t.chance(1, 10) {
        // any syntactically valid scheme: ALPHA *( ALPHA / DIGIT / "+" / "-" / "." ), up to 90 bytes
        let n = if t.chance(1, 2) { t.pick(12) } else { t.pick(90) };
        scheme = t.choose(&["web", "x", "com", "h", "https", "ws"]).to_string();
        for _ in 0..n {
            scheme.push(t.choose(&['a', 'p', 'x', 's', '0', '9', '+', '-', '.', 'Z']));
        }
    }
    let userinfo = if t.chance(1, 6) { Some(t.choose(&["user", "user:pass", "u%40x", "a:b:c", "üser", "example.org", "x:"]).to_string()) } else { None };
    let port = if t.chance(1, 5) { Some(t.choose(&[80u16, 443, 8080, 1, 65535])) } else { None };
    let tail = format!("{}{}{}", gen::path(t), if t.chance(1, 3) { format!("?{}", gen::query(t)) } else { String::new() }, if t.chance(1, 6) { "#frag@x:1/".to_string() } else { String::new() });
    // no path at all: the query or the fragment follows the authority directly (and may hold '@' / ':')
    let tail = if t.chance(1, 15) { t.choose(&["?contact=admin@tracker.net", "?@", "#@x", "?a:b@c.d/e", "#u:p@h/"]).to_string() } else { tail };
    // characters just above the stripped range at the very end of the URL are part of it
    let tail = if t.chance(1, 15) { format!("{}{}", tail, t.choose(&["\u{7f}", "\u{7f}\u{7f}", "!", "\u{a0}"])) } else { tail };
    let special = ["http", "https", "ws", "wss", "ftp", "gopher"].contains(&scheme.to_ascii_lowercase().as_str());
    let tail = if special && userinfo.is_none() && t.chance(1, 12) {
        // on special schemes a backslash ends the authority like '/': an '@' behind it is path text
        format!("{}{}", t.choose(&["\\@evil.net/x.js", "\\a@b/", "\\\\@x", "\\x/y@z?q=@"]), tail)
    } else {
        tail
    };
    let (source, source_reg) = match t.pick(10) {
        0 => (String::new(), None),
        1 => (t.choose(&["not a url", "about:blank", "data:text/html,x", "//x.com/", "https://"]).to_string(), None),
        2 | 3 => {
            // same registrable domain, other subdomain (only for hosts where that is a valid name)
            if host.starts_with('[') || host.chars().all(|c| c.is_ascii_digit() || c == '.') || !reg.contains('.') || host == "co.uk" || host == "github.io" {
                (format!("https://{}/p", host), Some(reg.to_string()))
            } else {
                (format!("https://other-sub.{}/p", reg), Some(reg.to_string()))
            }
        }
        4 => (format!("http://{}:8080/", host), Some(reg.to_string())),
        _ => {
            let (h2, r2) = if t.chance(1, 6) { t.choose(IDN_HOSTS) } else { t.choose(HOSTS) };
            (format!("https://{}/page?x=1", h2), Some(r2.to_string()))
        }
    };
    let pads = ["", "", "", " ", "\t", "\n", "\u{0}", "\u{1}", "\u{1b}", "\u{1f}", " \u{0} ", "\r\n"];
    let pad = if t.chance(1, 4) { (t.choose(&pads).to_string(), t.choose(&pads).to_string(), t.choose(&pads).to_string(), t.choose(&pads).to_string()) } else { Default::default() };
    let mut ign = vec![];
    if t.chance(1, 5) {
        for _ in 0..(1 + t.pick(3)) {
            ign.push((t.next(), t.pick(3) as u8));
        }
    }
    UrlCase { scheme, userinfo, host: host.to_string(), host_ascii: ascii(host), reg: reg.to_string(), port, tail, source, source_reg, rtype: t.choose(gen::REQ_TYPES).to_string(), pad, ign }
}

pub fn check(ctx: &mut Ctx) {
    ctx.rule = "any: (url, source, type) strings spliced from URL punctuation (: / // @ [ ] \\ ? # %), control characters, non-ASCII, scheme names, truncated/mutated generated URLs and arbitrary code points; Request::new, Request::preparsed and queries on the result must not panic, and for every URL that parses: is_supported <=> scheme in {http,https,ws,wss}, ws/wss => Websocket, the reported hostname is ASCII and is the host component found by an independent scanner in the normalised URL. url: constructive URLs (10 scheme spellings, 1 in 10 a generated RFC 3986 scheme of up to 95 bytes, x optional userinfo x 38 curated hosts with known registrable domains incl. multi-label and wildcard public suffixes, IP literals, IDN x optional port x path/query/fragment (1 in 12 on special schemes starting with a backslash followed by '@' text); 1 case in 5 with 1-3 ASCII tab/LF/CR characters inserted anywhere in the URL, which URL parsing must ignore) with sources of the same / another registrable domain, absent or unparsable: hostname == expected punycoded host, third-party <=> registrable domains differ (or no usable source), scheme classification, and Request::preparsed(...) has equal public fields and equal verdicts/CSP on a 7-rule engine. Non-trivial (url) = userinfo/port/IDN/IP literal/multi-label suffix/deep subdomain, or a pair for which a 'last two labels' rule gives the wrong party.".into();
    ctx.assumptions = vec![
        "registrable domains of the curated hosts are fixed by construction from public-suffix facts (co.uk, com.au, github.io, blogspot.com, *.ck / !www.ck, *.kawasaki.jp / !city.kawasaki.jp, unknown TLD => last two labels, IP literal / single label => whole host)".into(),
        "expected punycode comes from the idna crate".into(),
        "upper-case and trailing-dot hosts are exercised for totality only".into(),
    ];
    let n = ctx.tier.pick(1_500_000, 10_000_000);
    drive(ctx, "any", n, 60, &decode_any, &check_any);
    let n = ctx.tier.pick(1_000_000, 8_000_000);
    drive(ctx, "url", n, 120, &decode_url, &check_url);
    let _ = NetCfg::default();
}

pub fn replay(ctx: &mut Ctx, v: &Value) {
    match v.get("check").and_then(|c| c.as_str()) {
        Some("url") => replay_file::<UrlCase>(ctx, v, &check_url),
        _ => replay_file::<AnyCase>(ctx, v, &check_any),
    }
}
