; ModuleID = 'probe7.c2c2a0e0c9394851-cgu.0'
source_filename = "probe7.c2c2a0e0c9394851-cgu.0"
target datalayout = "e-m:e-p270:32:32-p271:32:32-p272:64:64-i64:64-i128:128-f80:128-n8:16:32:64-S128"
target triple = "x86_64-unknown-linux-gnu"

$_RNvCsgIHFsegOAHB_6probe75probe = comdat nodeduplicate

$_RNvMNtCsanpdEcSfypT_4core3f64d8copysignCsgIHFsegOAHB_6probe7 = comdat nodeduplicate

$asan.module_ctor = comdat any

$sancov.module_ctor_8bit_counters = comdat any

@___asan_globals_registered = common hidden global i64 0
@__start_asan_globals = extern_weak hidden global i64
@__stop_asan_globals = extern_weak hidden global i64
@__sancov_lowest_stack = external thread_local(initialexec) global i64
@__sancov_gen_ = private global [1 x i8] zeroinitializer, section "__sancov_cntrs", comdat($_RNvCsgIHFsegOAHB_6probe75probe), align 1
@__sancov_gen_.1 = private constant [2 x ptr] [ptr @_RNvCsgIHFsegOAHB_6probe75probe, ptr inttoptr (i64 1 to ptr)], section "__sancov_pcs", comdat($_RNvCsgIHFsegOAHB_6probe75probe), align 8
@__sancov_gen_.2 = private global [1 x i8] zeroinitializer, section "__sancov_cntrs", comdat($_RNvMNtCsanpdEcSfypT_4core3f64d8copysignCsgIHFsegOAHB_6probe7), align 1
@__sancov_gen_.3 = private constant [2 x ptr] [ptr @_RNvMNtCsanpdEcSfypT_4core3f64d8copysignCsgIHFsegOAHB_6probe7, ptr inttoptr (i64 1 to ptr)], section "__sancov_pcs", comdat($_RNvMNtCsanpdEcSfypT_4core3f64d8copysignCsgIHFsegOAHB_6probe7), align 8
@__start___sancov_cntrs = extern_weak hidden global i8
@__stop___sancov_cntrs = extern_weak hidden global i8
@llvm.global_ctors = appending global [2 x { i32, ptr, ptr }] [{ i32, ptr, ptr } { i32 1, ptr @asan.module_ctor, ptr @asan.module_ctor }, { i32, ptr, ptr } { i32 2, ptr @sancov.module_ctor_8bit_counters, ptr @sancov.module_ctor_8bit_counters }]
@__start___sancov_pcs = extern_weak hidden global i64
@__stop___sancov_pcs = extern_weak hidden global i64
@llvm.used = appending global [2 x ptr] [ptr @asan.module_ctor, ptr @sancov.module_ctor_8bit_counters], section "llvm.metadata"
@llvm.compiler.used = appending global [4 x ptr] [ptr @__sancov_gen_, ptr @__sancov_gen_.1, ptr @__sancov_gen_.2, ptr @__sancov_gen_.3], section "llvm.metadata"

; probe7::probe
; Function Attrs: nonlazybind sanitize_address uwtable
define void @_RNvCsgIHFsegOAHB_6probe75probe() unnamed_addr #0 comdat {
start:
  %0 = load i8, ptr @__sancov_gen_, align 1, !nosanitize !4
  %1 = add i8 %0, 1
  store i8 %1, ptr @__sancov_gen_, align 1, !nosanitize !4
  %2 = call ptr @llvm.frameaddress.p0(i32 0)
  %3 = ptrtoint ptr %2 to i64
  %4 = load i64, ptr @__sancov_lowest_stack, align 8, !nosanitize !4
  %5 = icmp ult i64 %3, %4
  br i1 %5, label %6, label %7, !prof !5

6:                                                ; preds = %start
  store i64 %3, ptr @__sancov_lowest_stack, align 8, !nosanitize !4
  br label %7

7:                                                ; preds = %start, %6
; call <f64>::copysign
  %_1 = call double @_RNvMNtCsanpdEcSfypT_4core3f64d8copysignCsgIHFsegOAHB_6probe7(double 1.000000e+00, double -1.000000e+00) #6
  ret void
}

; <f64>::copysign
; Function Attrs: inlinehint nonlazybind sanitize_address uwtable
define internal double @_RNvMNtCsanpdEcSfypT_4core3f64d8copysignCsgIHFsegOAHB_6probe7(double %self, double %sign) unnamed_addr #1 comdat {
start:
  %0 = alloca [8 x i8], align 8
  %1 = load i8, ptr @__sancov_gen_.2, align 1, !nosanitize !4
  %2 = add i8 %1, 1
  store i8 %2, ptr @__sancov_gen_.2, align 1, !nosanitize !4
  call void @llvm.lifetime.start.p0(ptr %0)
  %3 = call double @llvm.copysign.f64(double %self, double %sign)
  store double %3, ptr %0, align 8
  %_0 = load double, ptr %0, align 8
  call void @llvm.lifetime.end.p0(ptr %0)
  ret double %_0
}

; Function Attrs: nobuiltin nocallback nofree nosync nounwind willreturn
declare void @llvm.lifetime.start.p0(ptr captures(none)) #2

; Function Attrs: nocallback nocreateundeforpoison nofree nosync nounwind speculatable willreturn memory(none)
declare double @llvm.copysign.f64(double, double) #3

; Function Attrs: nobuiltin nocallback nofree nosync nounwind willreturn
declare void @llvm.lifetime.end.p0(ptr captures(none)) #2

declare void @__asan_report_load_n(i64, i64)

declare void @__asan_loadN(i64, i64)

declare void @__asan_report_load1(i64)

declare void @__asan_load1(i64)

declare void @__asan_report_load2(i64)

declare void @__asan_load2(i64)

declare void @__asan_report_load4(i64)

declare void @__asan_load4(i64)

declare void @__asan_report_load8(i64)

declare void @__asan_load8(i64)

declare void @__asan_report_load16(i64)

declare void @__asan_load16(i64)

declare void @__asan_report_store_n(i64, i64)

declare void @__asan_storeN(i64, i64)

declare void @__asan_report_store1(i64)

declare void @__asan_store1(i64)

declare void @__asan_report_store2(i64)

declare void @__asan_store2(i64)

declare void @__asan_report_store4(i64)

declare void @__asan_store4(i64)

declare void @__asan_report_store8(i64)

declare void @__asan_store8(i64)

declare void @__asan_report_store16(i64)

declare void @__asan_store16(i64)

declare void @__asan_report_exp_load_n(i64, i64, i32)

declare void @__asan_exp_loadN(i64, i64, i32)

declare void @__asan_report_exp_load1(i64, i32)

declare void @__asan_exp_load1(i64, i32)

declare void @__asan_report_exp_load2(i64, i32)

declare void @__asan_exp_load2(i64, i32)

declare void @__asan_report_exp_load4(i64, i32)

declare void @__asan_exp_load4(i64, i32)

declare void @__asan_report_exp_load8(i64, i32)

declare void @__asan_exp_load8(i64, i32)

declare void @__asan_report_exp_load16(i64, i32)

declare void @__asan_exp_load16(i64, i32)

declare void @__asan_report_exp_store_n(i64, i64, i32)

declare void @__asan_exp_storeN(i64, i64, i32)

declare void @__asan_report_exp_store1(i64, i32)

declare void @__asan_exp_store1(i64, i32)

declare void @__asan_report_exp_store2(i64, i32)

declare void @__asan_exp_store2(i64, i32)

declare void @__asan_report_exp_store4(i64, i32)

declare void @__asan_exp_store4(i64, i32)

declare void @__asan_report_exp_store8(i64, i32)

declare void @__asan_exp_store8(i64, i32)

declare void @__asan_report_exp_store16(i64, i32)

declare void @__asan_exp_store16(i64, i32)

declare ptr @__asan_memmove(ptr, ptr, i64)

declare ptr @__asan_memcpy(ptr, ptr, i64)

declare ptr @__asan_memset(ptr, i32, i64)

declare void @__asan_handle_no_return()

declare void @__sanitizer_ptr_cmp(i64, i64)

declare void @__sanitizer_ptr_sub(i64, i64)

; Function Attrs: nocallback nocreateundeforpoison nofree nosync nounwind speculatable willreturn memory(none)
declare i1 @llvm.amdgcn.is.shared(ptr) #3

; Function Attrs: nocallback nocreateundeforpoison nofree nosync nounwind speculatable willreturn memory(none)
declare i1 @llvm.amdgcn.is.private(ptr) #3

declare void @__asan_before_dynamic_init(i64)

declare void @__asan_after_dynamic_init()

declare void @__asan_register_globals(i64, i64)

declare void @__asan_unregister_globals(i64, i64)

declare void @__asan_register_image_globals(i64)

declare void @__asan_unregister_image_globals(i64)

declare void @__asan_register_elf_globals(i64, i64, i64)

declare void @__asan_unregister_elf_globals(i64, i64, i64)

declare void @__asan_init()

; Function Attrs: nounwind
define internal void @asan.module_ctor() #4 comdat {
  call void @__asan_init()
  call void @__asan_version_mismatch_check_v8()
  call void @__asan_register_elf_globals(i64 ptrtoint (ptr @___asan_globals_registered to i64), i64 ptrtoint (ptr @__start_asan_globals to i64), i64 ptrtoint (ptr @__stop_asan_globals to i64))
  ret void
}

declare void @__asan_version_mismatch_check_v8()

declare void @__sanitizer_cov_trace_pc_indir(i64)

declare void @__sanitizer_cov_trace_cmp1(i8 zeroext, i8 zeroext)

declare void @__sanitizer_cov_trace_cmp2(i16 zeroext, i16 zeroext)

declare void @__sanitizer_cov_trace_cmp4(i32 zeroext, i32 zeroext)

declare void @__sanitizer_cov_trace_cmp8(i64, i64)

declare void @__sanitizer_cov_trace_const_cmp1(i8 zeroext, i8 zeroext)

declare void @__sanitizer_cov_trace_const_cmp2(i16 zeroext, i16 zeroext)

declare void @__sanitizer_cov_trace_const_cmp4(i32 zeroext, i32 zeroext)

declare void @__sanitizer_cov_trace_const_cmp8(i64, i64)

declare void @__sanitizer_cov_load1(ptr)

declare void @__sanitizer_cov_load2(ptr)

declare void @__sanitizer_cov_load4(ptr)

declare void @__sanitizer_cov_load8(ptr)

declare void @__sanitizer_cov_load16(ptr)

declare void @__sanitizer_cov_store1(ptr)

declare void @__sanitizer_cov_store2(ptr)

declare void @__sanitizer_cov_store4(ptr)

declare void @__sanitizer_cov_store8(ptr)

declare void @__sanitizer_cov_store16(ptr)

declare void @__sanitizer_cov_trace_div4(i32 zeroext)

declare void @__sanitizer_cov_trace_div8(i64)

declare void @__sanitizer_cov_trace_gep(i64)

declare void @__sanitizer_cov_trace_switch(i64, ptr)

declare void @__sanitizer_cov_trace_pc()

declare void @__sanitizer_cov_trace_pc_guard(ptr)

declare void @__sanitizer_cov_stack_depth()

; Function Attrs: nocallback nofree nosync nounwind willreturn memory(none)
declare ptr @llvm.frameaddress.p0(i32 immarg) #5

declare void @__sanitizer_cov_8bit_counters_init(ptr, ptr)

; Function Attrs: nounwind
define internal void @sancov.module_ctor_8bit_counters() #4 comdat {
  call void @__sanitizer_cov_8bit_counters_init(ptr @__start___sancov_cntrs, ptr @__stop___sancov_cntrs)
  call void @__sanitizer_cov_pcs_init(ptr @__start___sancov_pcs, ptr @__stop___sancov_pcs)
  ret void
}

declare void @__sanitizer_cov_pcs_init(ptr, ptr)

attributes #0 = { nonlazybind sanitize_address uwtable "target-cpu"="x86-64" }
attributes #1 = { inlinehint nonlazybind sanitize_address uwtable "target-cpu"="x86-64" }
attributes #2 = { nobuiltin nocallback nofree nosync nounwind willreturn }
attributes #3 = { nocallback nocreateundeforpoison nofree nosync nounwind speculatable willreturn memory(none) }
attributes #4 = { nounwind }
attributes #5 = { nocallback nofree nosync nounwind willreturn memory(none) }
attributes #6 = { inlinehint }

!llvm.module.flags = !{!0, !1, !2}
!llvm.ident = !{!3}

!0 = !{i32 8, !"PIC Level", i32 2}
!1 = !{i32 2, !"RtLibUseGOT", i32 1}
!2 = !{i32 4, !"nosanitize_address", i32 1}
!3 = !{!"rustc version 1.97.0-nightly (ad3a598ca 2026-05-03)"}
!4 = !{}
!5 = !{!"branch_weights", i32 1, i32 1048575}
