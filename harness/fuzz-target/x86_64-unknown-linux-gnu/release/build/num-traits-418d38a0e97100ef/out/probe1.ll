; ModuleID = 'probe1.1b5804d105718845-cgu.0'
source_filename = "probe1.1b5804d105718845-cgu.0"
target datalayout = "e-m:e-p270:32:32-p271:32:32-p272:64:64-i64:64-i128:128-f80:128-n8:16:32:64-S128"
target triple = "x86_64-unknown-linux-gnu"

$asan.module_ctor = comdat any

@___asan_globals_registered = common hidden global i64 0
@__start_asan_globals = extern_weak hidden global i64
@__stop_asan_globals = extern_weak hidden global i64
@llvm.global_ctors = appending global [1 x { i32, ptr, ptr }] [{ i32, ptr, ptr } { i32 1, ptr @asan.module_ctor, ptr @asan.module_ctor }]
@__sancov_lowest_stack = external thread_local(initialexec) global i64
@llvm.used = appending global [1 x ptr] [ptr @asan.module_ctor], section "llvm.metadata"

declare void @__asan_before_dynamic_init(i64)

declare void @__asan_after_dynamic_init()

declare void @__asan_register_globals(i64, i64)

declare void @__asan_unregister_globals(i64, i64)

declare void @__asan_register_image_globals(i64)

declare void @__asan_unregister_image_globals(i64)

declare void @__asan_register_elf_globals(i64, i64, i64)

declare void @__asan_unregister_elf_globals(i64, i64, i64)

declare void @__asan_init()

; Function Attrs: nounwind
define internal void @asan.module_ctor() #0 comdat {
  call void @__asan_init()
  call void @__asan_version_mismatch_check_v8()
  call void @__asan_register_elf_globals(i64 ptrtoint (ptr @___asan_globals_registered to i64), i64 ptrtoint (ptr @__start_asan_globals to i64), i64 ptrtoint (ptr @__stop_asan_globals to i64))
  ret void
}

declare void @__asan_version_mismatch_check_v8()

declare void @__sanitizer_cov_trace_pc_indir(i64)

declare void @__sanitizer_cov_trace_cmp1(i8 zeroext, i8 zeroext)

declare void @__sanitizer_cov_trace_cmp2(i16 zeroext, i16 zeroext)

declare void @__sanitizer_cov_trace_cmp4(i32 zeroext, i32 zeroext)

declare void @__sanitizer_cov_trace_cmp8(i64, i64)

declare void @__sanitizer_cov_trace_const_cmp1(i8 zeroext, i8 zeroext)

declare void @__sanitizer_cov_trace_const_cmp2(i16 zeroext, i16 zeroext)

declare void @__sanitizer_cov_trace_const_cmp4(i32 zeroext, i32 zeroext)

declare void @__sanitizer_cov_trace_const_cmp8(i64, i64)

declare void @__sanitizer_cov_load1(ptr)

declare void @__sanitizer_cov_load2(ptr)

declare void @__sanitizer_cov_load4(ptr)

declare void @__sanitizer_cov_load8(ptr)

declare void @__sanitizer_cov_load16(ptr)

declare void @__sanitizer_cov_store1(ptr)

declare void @__sanitizer_cov_store2(ptr)

declare void @__sanitizer_cov_store4(ptr)

declare void @__sanitizer_cov_store8(ptr)

declare void @__sanitizer_cov_store16(ptr)

declare void @__sanitizer_cov_trace_div4(i32 zeroext)

declare void @__sanitizer_cov_trace_div8(i64)

declare void @__sanitizer_cov_trace_gep(i64)

declare void @__sanitizer_cov_trace_switch(i64, ptr)

declare void @__sanitizer_cov_trace_pc()

declare void @__sanitizer_cov_trace_pc_guard(ptr)

declare void @__sanitizer_cov_stack_depth()

attributes #0 = { nounwind }

!llvm.module.flags = !{!0, !1, !2}
!llvm.ident = !{!3}

!0 = !{i32 8, !"PIC Level", i32 2}
!1 = !{i32 2, !"RtLibUseGOT", i32 1}
!2 = !{i32 4, !"nosanitize_address", i32 1}
!3 = !{!"rustc version 1.97.0-nightly (ad3a598ca 2026-05-03)"}
