; ModuleID = 'probe6.1efc74f879027ab-cgu.0'
source_filename = "probe6.1efc74f879027ab-cgu.0"
target datalayout = "e-m:e-p270:32:32-p271:32:32-p272:64:64-i64:64-i128:128-f80:128-n8:16:32:64-S128"
target triple = "x86_64-unknown-linux-gnu"

$_RNvCsaj8uWmBVSV_6probe65probe = comdat nodeduplicate

$asan.module_ctor = comdat any

$asan.module_dtor = comdat any

$sancov.module_ctor_8bit_counters = comdat any

$alloc_7971f3465817cc18ad816e3dbdd7087a.a1f7bad7112cdf23ade360677365bbc0 = comdat any

$alloc_9d40747e106cbf85f7bd532d58745d14.a1f7bad7112cdf23ade360677365bbc0 = comdat any

@alloc_7971f3465817cc18ad816e3dbdd7087a = internal constant { [7 x i8], [25 x i8] } { [7 x i8] c"<anon>\00", [25 x i8] zeroinitializer }, comdat($alloc_7971f3465817cc18ad816e3dbdd7087a.a1f7bad7112cdf23ade360677365bbc0), align 32
@alloc_9d40747e106cbf85f7bd532d58745d14 = internal constant { <{ ptr, [16 x i8] }>, [40 x i8] } { <{ ptr, [16 x i8] }> <{ ptr @alloc_7971f3465817cc18ad816e3dbdd7087a, [16 x i8] c"\06\00\00\00\00\00\00\00\01\00\00\00\1F\00\00\00" }>, [40 x i8] zeroinitializer }, comdat($alloc_9d40747e106cbf85f7bd532d58745d14.a1f7bad7112cdf23ade360677365bbc0), align 32
@___asan_gen_global = private unnamed_addr constant [39 x i8] c"alloc_7971f3465817cc18ad816e3dbdd7087a\00", align 1
@___asan_gen_module = private constant [29 x i8] c"probe6.1efc74f879027ab-cgu.0\00", align 1
@___asan_gen_global.1 = private unnamed_addr constant [39 x i8] c"alloc_9d40747e106cbf85f7bd532d58745d14\00", align 1
@__asan_global_alloc_7971f3465817cc18ad816e3dbdd7087a = private global { i64, i64, i64, i64, i64, i64, i64, i64 } { i64 ptrtoint (ptr @anon.9a197d09855e58f00e912c162d36a1df.0 to i64), i64 7, i64 32, i64 ptrtoint (ptr @___asan_gen_global to i64), i64 ptrtoint (ptr @___asan_gen_module to i64), i64 0, i64 0, i64 -1 }, section "asan_globals", comdat($alloc_7971f3465817cc18ad816e3dbdd7087a.a1f7bad7112cdf23ade360677365bbc0), !associated !0
@__asan_global_alloc_9d40747e106cbf85f7bd532d58745d14 = private global { i64, i64, i64, i64, i64, i64, i64, i64 } { i64 ptrtoint (ptr @anon.9a197d09855e58f00e912c162d36a1df.1 to i64), i64 24, i64 64, i64 ptrtoint (ptr @___asan_gen_global.1 to i64), i64 ptrtoint (ptr @___asan_gen_module to i64), i64 0, i64 0, i64 -1 }, section "asan_globals", comdat($alloc_9d40747e106cbf85f7bd532d58745d14.a1f7bad7112cdf23ade360677365bbc0), !associated !1
@___asan_globals_registered = common hidden global i64 0
@__start_asan_globals = extern_weak hidden global i64
@__stop_asan_globals = extern_weak hidden global i64
@llvm.global_dtors = appending global [1 x { i32, ptr, ptr }] [{ i32, ptr, ptr } { i32 1, ptr @asan.module_dtor, ptr @asan.module_dtor }]
@__sancov_lowest_stack = external thread_local(initialexec) global i64
@__sancov_gen_ = private global [1 x i8] zeroinitializer, section "__sancov_cntrs", comdat($_RNvCsaj8uWmBVSV_6probe65probe), align 1
@__sancov_gen_.2 = private constant [2 x ptr] [ptr @_RNvCsaj8uWmBVSV_6probe65probe, ptr inttoptr (i64 1 to ptr)], section "__sancov_pcs", comdat($_RNvCsaj8uWmBVSV_6probe65probe), align 8
@__sancov_gen_.3 = private global [1 x i8] zeroinitializer, section "__sancov_cntrs", comdat($asan.module_dtor), align 1
@__sancov_gen_.4 = private constant [2 x ptr] [ptr @asan.module_dtor, ptr inttoptr (i64 1 to ptr)], section "__sancov_pcs", comdat($asan.module_dtor), align 8
@__start___sancov_cntrs = extern_weak hidden global i8
@__stop___sancov_cntrs = extern_weak hidden global i8
@llvm.global_ctors = appending global [2 x { i32, ptr, ptr }] [{ i32, ptr, ptr } { i32 1, ptr @asan.module_ctor, ptr @asan.module_ctor }, { i32, ptr, ptr } { i32 2, ptr @sancov.module_ctor_8bit_counters, ptr @sancov.module_ctor_8bit_counters }]
@__start___sancov_pcs = extern_weak hidden global i64
@__stop___sancov_pcs = extern_weak hidden global i64
@llvm.used = appending global [3 x ptr] [ptr @asan.module_ctor, ptr @asan.module_dtor, ptr @sancov.module_ctor_8bit_counters], section "llvm.metadata"
@llvm.compiler.used = appending global [8 x ptr] [ptr @alloc_7971f3465817cc18ad816e3dbdd7087a, ptr @alloc_9d40747e106cbf85f7bd532d58745d14, ptr @__asan_global_alloc_7971f3465817cc18ad816e3dbdd7087a, ptr @__asan_global_alloc_9d40747e106cbf85f7bd532d58745d14, ptr @__sancov_gen_, ptr @__sancov_gen_.2, ptr @__sancov_gen_.3, ptr @__sancov_gen_.4], section "llvm.metadata"

@anon.9a197d09855e58f00e912c162d36a1df.0 = private alias { [7 x i8], [25 x i8] }, ptr @alloc_7971f3465817cc18ad816e3dbdd7087a
@anon.9a197d09855e58f00e912c162d36a1df.1 = private alias { <{ ptr, [16 x i8] }>, [40 x i8] }, ptr @alloc_9d40747e106cbf85f7bd532d58745d14

; probe6::probe
; Function Attrs: nonlazybind sanitize_address uwtable
define void @_RNvCsaj8uWmBVSV_6probe65probe() unnamed_addr #0 comdat {
start:
  %0 = load i8, ptr @__sancov_gen_, align 1, !nosanitize !6
  %1 = add i8 %0, 1
  store i8 %1, ptr @__sancov_gen_, align 1, !nosanitize !6
  ret void
}

; core::panicking::panic_const::panic_const_div_by_zero
; Function Attrs: cold noinline noreturn nonlazybind sanitize_address uwtable
declare void @_RNvNtNtCsanpdEcSfypT_4core9panicking11panic_const23panic_const_div_by_zero(ptr align 8) unnamed_addr #1

declare void @__asan_report_load_n(i64, i64)

declare void @__asan_loadN(i64, i64)

declare void @__asan_report_load1(i64)

declare void @__asan_load1(i64)

declare void @__asan_report_load2(i64)

declare void @__asan_load2(i64)

declare void @__asan_report_load4(i64)

declare void @__asan_load4(i64)

declare void @__asan_report_load8(i64)

declare void @__asan_load8(i64)

declare void @__asan_report_load16(i64)

declare void @__asan_load16(i64)

declare void @__asan_report_store_n(i64, i64)

declare void @__asan_storeN(i64, i64)

declare void @__asan_report_store1(i64)

declare void @__asan_store1(i64)

declare void @__asan_report_store2(i64)

declare void @__asan_store2(i64)

declare void @__asan_report_store4(i64)

declare void @__asan_store4(i64)

declare void @__asan_report_store8(i64)

declare void @__asan_store8(i64)

declare void @__asan_report_store16(i64)

declare void @__asan_store16(i64)

declare void @__asan_report_exp_load_n(i64, i64, i32)

declare void @__asan_exp_loadN(i64, i64, i32)

declare void @__asan_report_exp_load1(i64, i32)

declare void @__asan_exp_load1(i64, i32)

declare void @__asan_report_exp_load2(i64, i32)

declare void @__asan_exp_load2(i64, i32)

declare void @__asan_report_exp_load4(i64, i32)

declare void @__asan_exp_load4(i64, i32)

declare void @__asan_report_exp_load8(i64, i32)

declare void @__asan_exp_load8(i64, i32)

declare void @__asan_report_exp_load16(i64, i32)

declare void @__asan_exp_load16(i64, i32)

declare void @__asan_report_exp_store_n(i64, i64, i32)

declare void @__asan_exp_storeN(i64, i64, i32)

declare void @__asan_report_exp_store1(i64, i32)

declare void @__asan_exp_store1(i64, i32)

declare void @__asan_report_exp_store2(i64, i32)

declare void @__asan_exp_store2(i64, i32)

declare void @__asan_report_exp_store4(i64, i32)

declare void @__asan_exp_store4(i64, i32)

declare void @__asan_report_exp_store8(i64, i32)

declare void @__asan_exp_store8(i64, i32)

declare void @__asan_report_exp_store16(i64, i32)

declare void @__asan_exp_store16(i64, i32)

declare ptr @__asan_memmove(ptr, ptr, i64)

declare ptr @__asan_memcpy(ptr, ptr, i64)

declare ptr @__asan_memset(ptr, i32, i64)

declare void @__asan_handle_no_return()

declare void @__sanitizer_ptr_cmp(i64, i64)

declare void @__sanitizer_ptr_sub(i64, i64)

; Function Attrs: nocallback nocreateundeforpoison nofree nosync nounwind speculatable willreturn memory(none)
declare i1 @llvm.amdgcn.is.shared(ptr) #2

; Function Attrs: nocallback nocreateundeforpoison nofree nosync nounwind speculatable willreturn memory(none)
declare i1 @llvm.amdgcn.is.private(ptr) #2

declare void @__asan_before_dynamic_init(i64)

declare void @__asan_after_dynamic_init()

declare void @__asan_register_globals(i64, i64)

declare void @__asan_unregister_globals(i64, i64)

declare void @__asan_register_image_globals(i64)

declare void @__asan_unregister_image_globals(i64)

declare void @__asan_register_elf_globals(i64, i64, i64)

declare void @__asan_unregister_elf_globals(i64, i64, i64)

declare void @__asan_init()

; Function Attrs: nounwind
define internal void @asan.module_ctor() #3 comdat {
  call void @__asan_init()
  call void @__asan_version_mismatch_check_v8()
  call void @__asan_register_elf_globals(i64 ptrtoint (ptr @___asan_globals_registered to i64), i64 ptrtoint (ptr @__start_asan_globals to i64), i64 ptrtoint (ptr @__stop_asan_globals to i64))
  ret void
}

declare void @__asan_version_mismatch_check_v8()

; Function Attrs: nounwind
define internal void @asan.module_dtor() #3 comdat {
  %1 = load i8, ptr @__sancov_gen_.3, align 1, !nosanitize !6
  %2 = add i8 %1, 1
  store i8 %2, ptr @__sancov_gen_.3, align 1, !nosanitize !6
  %3 = call ptr @llvm.frameaddress.p0(i32 0)
  %4 = ptrtoint ptr %3 to i64
  %5 = load i64, ptr @__sancov_lowest_stack, align 8, !nosanitize !6
  %6 = icmp ult i64 %4, %5
  br i1 %6, label %7, label %8, !prof !7

7:                                                ; preds = %0
  store i64 %4, ptr @__sancov_lowest_stack, align 8, !nosanitize !6
  br label %8

8:                                                ; preds = %0, %7
  call void @__asan_unregister_elf_globals(i64 ptrtoint (ptr @___asan_globals_registered to i64), i64 ptrtoint (ptr @__start_asan_globals to i64), i64 ptrtoint (ptr @__stop_asan_globals to i64))
  ret void
}

declare void @__sanitizer_cov_trace_pc_indir(i64)

declare void @__sanitizer_cov_trace_cmp1(i8 zeroext, i8 zeroext)

declare void @__sanitizer_cov_trace_cmp2(i16 zeroext, i16 zeroext)

declare void @__sanitizer_cov_trace_cmp4(i32 zeroext, i32 zeroext)

declare void @__sanitizer_cov_trace_cmp8(i64, i64)

declare void @__sanitizer_cov_trace_const_cmp1(i8 zeroext, i8 zeroext)

declare void @__sanitizer_cov_trace_const_cmp2(i16 zeroext, i16 zeroext)

declare void @__sanitizer_cov_trace_const_cmp4(i32 zeroext, i32 zeroext)

declare void @__sanitizer_cov_trace_const_cmp8(i64, i64)

declare void @__sanitizer_cov_load1(ptr)

declare void @__sanitizer_cov_load2(ptr)

declare void @__sanitizer_cov_load4(ptr)

declare void @__sanitizer_cov_load8(ptr)

declare void @__sanitizer_cov_load16(ptr)

declare void @__sanitizer_cov_store1(ptr)

declare void @__sanitizer_cov_store2(ptr)

declare void @__sanitizer_cov_store4(ptr)

declare void @__sanitizer_cov_store8(ptr)

declare void @__sanitizer_cov_store16(ptr)

declare void @__sanitizer_cov_trace_div4(i32 zeroext)

declare void @__sanitizer_cov_trace_div8(i64)

declare void @__sanitizer_cov_trace_gep(i64)

declare void @__sanitizer_cov_trace_switch(i64, ptr)

declare void @__sanitizer_cov_trace_pc()

declare void @__sanitizer_cov_trace_pc_guard(ptr)

declare void @__sanitizer_cov_stack_depth()

; Function Attrs: nocallback nofree nosync nounwind willreturn memory(none)
declare ptr @llvm.frameaddress.p0(i32 immarg) #4

declare void @__sanitizer_cov_8bit_counters_init(ptr, ptr)

; Function Attrs: nounwind
define internal void @sancov.module_ctor_8bit_counters() #3 comdat {
  call void @__sanitizer_cov_8bit_counters_init(ptr @__start___sancov_cntrs, ptr @__stop___sancov_cntrs)
  call void @__sanitizer_cov_pcs_init(ptr @__start___sancov_pcs, ptr @__stop___sancov_pcs)
  ret void
}

declare void @__sanitizer_cov_pcs_init(ptr, ptr)

attributes #0 = { nonlazybind sanitize_address uwtable "target-cpu"="x86-64" }
attributes #1 = { cold noinline noreturn nonlazybind sanitize_address uwtable "target-cpu"="x86-64" }
attributes #2 = { nocallback nocreateundeforpoison nofree nosync nounwind speculatable willreturn memory(none) }
attributes #3 = { nounwind }
attributes #4 = { nocallback nofree nosync nounwind willreturn memory(none) }

!llvm.module.flags = !{!2, !3, !4}
!llvm.ident = !{!5}

!0 = !{ptr @alloc_7971f3465817cc18ad816e3dbdd7087a}
!1 = !{ptr @alloc_9d40747e106cbf85f7bd532d58745d14}
!2 = !{i32 8, !"PIC Level", i32 2}
!3 = !{i32 2, !"RtLibUseGOT", i32 1}
!4 = !{i32 4, !"nosanitize_address", i32 1}
!5 = !{!"rustc version 1.97.0-nightly (ad3a598ca 2026-05-03)"}
!6 = !{}
!7 = !{!"branch_weights", i32 1, i32 1048575}
