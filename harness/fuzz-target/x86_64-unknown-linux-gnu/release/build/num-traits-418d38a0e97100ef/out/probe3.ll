; ModuleID = 'probe3.d34051feb164cf1-cgu.0'
source_filename = "probe3.d34051feb164cf1-cgu.0"
target datalayout = "e-m:e-p270:32:32-p271:32:32-p272:64:64-i64:64-i128:128-f80:128-n8:16:32:64-S128"
target triple = "x86_64-unknown-linux-gnu"

$_RNvCs18hnD3SeibJ_6probe35probe = comdat nodeduplicate

$asan.module_ctor = comdat any

$sancov.module_ctor_8bit_counters = comdat any

@___asan_globals_registered = common hidden global i64 0
@__start_asan_globals = extern_weak hidden global i64
@__stop_asan_globals = extern_weak hidden global i64
@__sancov_lowest_stack = external thread_local(initialexec) global i64
@__sancov_gen_ = private global [1 x i8] zeroinitializer, section "__sancov_cntrs", comdat($_RNvCs18hnD3SeibJ_6probe35probe), align 1
@__sancov_gen_.1 = private constant [2 x ptr] [ptr @_RNvCs18hnD3SeibJ_6probe35probe, ptr inttoptr (i64 1 to ptr)], section "__sancov_pcs", comdat($_RNvCs18hnD3SeibJ_6probe35probe), align 8
@__start___sancov_cntrs = extern_weak hidden global i8
@__stop___sancov_cntrs = extern_weak hidden global i8
@llvm.global_ctors = appending global [2 x { i32, ptr, ptr }] [{ i32, ptr, ptr } { i32 1, ptr @asan.module_ctor, ptr @asan.module_ctor }, { i32, ptr, ptr } { i32 2, ptr @sancov.module_ctor_8bit_counters, ptr @sancov.module_ctor_8bit_counters }]
@__start___sancov_pcs = extern_weak hidden global i64
@__stop___sancov_pcs = extern_weak hidden global i64
@llvm.used = appending global [2 x ptr] [ptr @asan.module_ctor, ptr @sancov.module_ctor_8bit_counters], section "llvm.metadata"
@llvm.compiler.used = appending global [2 x ptr] [ptr @__sancov_gen_, ptr @__sancov_gen_.1], section "llvm.metadata"

; probe3::probe
; Function Attrs: nonlazybind sanitize_address uwtable
define void @_RNvCs18hnD3SeibJ_6probe35probe() unnamed_addr #0 comdat {
start:
  %0 = alloca [4 x i8], align 4
  %1 = load i8, ptr @__sancov_gen_, align 1, !nosanitize !4
  %2 = add i8 %1, 1
  store i8 %2, ptr @__sancov_gen_, align 1, !nosanitize !4
  call void @llvm.lifetime.start.p0(ptr %0)
  store i32 -2147483648, ptr %0, align 4
  %_0.i = load i32, ptr %0, align 4
  call void @llvm.lifetime.end.p0(ptr %0)
  ret void
}

; Function Attrs: nobuiltin nocallback nofree nosync nounwind willreturn
declare void @llvm.lifetime.start.p0(ptr captures(none)) #1

; Function Attrs: nocallback nocreateundeforpoison nofree nosync nounwind speculatable willreturn memory(none)
declare i32 @llvm.bitreverse.i32(i32) #2

; Function Attrs: nobuiltin nocallback nofree nosync nounwind willreturn
declare void @llvm.lifetime.end.p0(ptr captures(none)) #1

declare void @__asan_report_load_n(i64, i64)

declare void @__asan_loadN(i64, i64)

declare void @__asan_report_load1(i64)

declare void @__asan_load1(i64)

declare void @__asan_report_load2(i64)

declare void @__asan_load2(i64)

declare void @__asan_report_load4(i64)

declare void @__asan_load4(i64)

declare void @__asan_report_load8(i64)

declare void @__asan_load8(i64)

declare void @__asan_report_load16(i64)

declare void @__asan_load16(i64)

declare void @__asan_report_store_n(i64, i64)

declare void @__asan_storeN(i64, i64)

declare void @__asan_report_store1(i64)

declare void @__asan_store1(i64)

declare void @__asan_report_store2(i64)

declare void @__asan_store2(i64)

declare void @__asan_report_store4(i64)

declare void @__asan_store4(i64)

declare void @__asan_report_store8(i64)

declare void @__asan_store8(i64)

declare void @__asan_report_store16(i64)

declare void @__asan_store16(i64)

declare void @__asan_report_exp_load_n(i64, i64, i32)

declare void @__asan_exp_loadN(i64, i64, i32)

declare void @__asan_report_exp_load1(i64, i32)

declare void @__asan_exp_load1(i64, i32)

declare void @__asan_report_exp_load2(i64, i32)

declare void @__asan_exp_load2(i64, i32)

declare void @__asan_report_exp_load4(i64, i32)

declare void @__asan_exp_load4(i64, i32)

declare void @__asan_report_exp_load8(i64, i32)

declare void @__asan_exp_load8(i64, i32)

declare void @__asan_report_exp_load16(i64, i32)

declare void @__asan_exp_load16(i64, i32)

declare void @__asan_report_exp_store_n(i64, i64, i32)

declare void @__asan_exp_storeN(i64, i64, i32)

declare void @__asan_report_exp_store1(i64, i32)

declare void @__asan_exp_store1(i64, i32)

declare void @__asan_report_exp_store2(i64, i32)

declare void @__asan_exp_store2(i64, i32)

declare void @__asan_report_exp_store4(i64, i32)

declare void @__asan_exp_store4(i64, i32)

declare void @__asan_report_exp_store8(i64, i32)

declare void @__asan_exp_store8(i64, i32)

declare void @__asan_report_exp_store16(i64, i32)

declare void @__asan_exp_store16(i64, i32)

declare ptr @__asan_memmove(ptr, ptr, i64)

declare ptr @__asan_memcpy(ptr, ptr, i64)

declare ptr @__asan_memset(ptr, i32, i64)

declare void @__asan_handle_no_return()

declare void @__sanitizer_ptr_cmp(i64, i64)

declare void @__sanitizer_ptr_sub(i64, i64)

; Function Attrs: nocallback nocreateundeforpoison nofree nosync nounwind speculatable willreturn memory(none)
declare i1 @llvm.amdgcn.is.shared(ptr) #2

; Function Attrs: nocallback nocreateundeforpoison nofree nosync nounwind speculatable willreturn memory(none)
declare i1 @llvm.amdgcn.is.private(ptr) #2

declare void @__asan_before_dynamic_init(i64)

declare void @__asan_after_dynamic_init()

declare void @__asan_register_globals(i64, i64)

declare void @__asan_unregister_globals(i64, i64)

declare void @__asan_register_image_globals(i64)

declare void @__asan_unregister_image_globals(i64)

declare void @__asan_register_elf_globals(i64, i64, i64)

declare void @__asan_unregister_elf_globals(i64, i64, i64)

declare void @__asan_init()

; Function Attrs: nounwind
define internal void @asan.module_ctor() #3 comdat {
  call void @__asan_init()
  call void @__asan_version_mismatch_check_v8()
  call void @__asan_register_elf_globals(i64 ptrtoint (ptr @___asan_globals_registered to i64), i64 ptrtoint (ptr @__start_asan_globals to i64), i64 ptrtoint (ptr @__stop_asan_globals to i64))
  ret void
}

declare void @__asan_version_mismatch_check_v8()

declare void @__sanitizer_cov_trace_pc_indir(i64)

declare void @__sanitizer_cov_trace_cmp1(i8 zeroext, i8 zeroext)

declare void @__sanitizer_cov_trace_cmp2(i16 zeroext, i16 zeroext)

declare void @__sanitizer_cov_trace_cmp4(i32 zeroext, i32 zeroext)

declare void @__sanitizer_cov_trace_cmp8(i64, i64)

declare void @__sanitizer_cov_trace_const_cmp1(i8 zeroext, i8 zeroext)

declare void @__sanitizer_cov_trace_const_cmp2(i16 zeroext, i16 zeroext)

declare void @__sanitizer_cov_trace_const_cmp4(i32 zeroext, i32 zeroext)

declare void @__sanitizer_cov_trace_const_cmp8(i64, i64)

declare void @__sanitizer_cov_load1(ptr)

declare void @__sanitizer_cov_load2(ptr)

declare void @__sanitizer_cov_load4(ptr)

declare void @__sanitizer_cov_load8(ptr)

declare void @__sanitizer_cov_load16(ptr)

declare void @__sanitizer_cov_store1(ptr)

declare void @__sanitizer_cov_store2(ptr)

declare void @__sanitizer_cov_store4(ptr)

declare void @__sanitizer_cov_store8(ptr)

declare void @__sanitizer_cov_store16(ptr)

declare void @__sanitizer_cov_trace_div4(i32 zeroext)

declare void @__sanitizer_cov_trace_div8(i64)

declare void @__sanitizer_cov_trace_gep(i64)

declare void @__sanitizer_cov_trace_switch(i64, ptr)

declare void @__sanitizer_cov_trace_pc()

declare void @__sanitizer_cov_trace_pc_guard(ptr)

declare void @__sanitizer_cov_stack_depth()

declare void @__sanitizer_cov_8bit_counters_init(ptr, ptr)

; Function Attrs: nounwind
define internal void @sancov.module_ctor_8bit_counters() #3 comdat {
  call void @__sanitizer_cov_8bit_counters_init(ptr @__start___sancov_cntrs, ptr @__stop___sancov_cntrs)
  call void @__sanitizer_cov_pcs_init(ptr @__start___sancov_pcs, ptr @__stop___sancov_pcs)
  ret void
}

declare void @__sanitizer_cov_pcs_init(ptr, ptr)

attributes #0 = { nonlazybind sanitize_address uwtable "target-cpu"="x86-64" }
attributes #1 = { nobuiltin nocallback nofree nosync nounwind willreturn }
attributes #2 = { nocallback nocreateundeforpoison nofree nosync nounwind speculatable willreturn memory(none) }
attributes #3 = { nounwind }

!llvm.module.flags = !{!0, !1, !2}
!llvm.ident = !{!3}

!0 = !{i32 8, !"PIC Level", i32 2}
!1 = !{i32 2, !"RtLibUseGOT", i32 1}
!2 = !{i32 4, !"nosanitize_address", i32 1}
!3 = !{!"rustc version 1.97.0-nightly (ad3a598ca 2026-05-03)"}
!4 = !{}
