; ModuleID = 'probe5.e1d0dfe292446c30-cgu.0'
source_filename = "probe5.e1d0dfe292446c30-cgu.0"
target datalayout = "e-m:e-p270:32:32-p271:32:32-p272:64:64-i64:64-i128:128-f80:128-n8:16:32:64-S128"
target triple = "x86_64-unknown-linux-gnu"

$_RNvCsjo0Ni8tRVpk_6probe55probe = comdat nodeduplicate

$_RNvXs5R_NtNtCsanpdEcSfypT_4core3ops5arithlINtB6_9AddAssignRlE10add_assignCsjo0Ni8tRVpk_6probe5 = comdat nodeduplicate

$asan.module_ctor = comdat any

$asan.module_dtor = comdat any

$sancov.module_ctor_8bit_counters = comdat any

$alloc_2e38410fced2c310c68bdf2d45d0c3bd.3ba5c4d362b55e8da1cd5c44c911d7f9 = comdat any

$alloc_7971f3465817cc18ad816e3dbdd7087a.3ba5c4d362b55e8da1cd5c44c911d7f9 = comdat any

$alloc_1d9e4a30726589abce1472f3c301cfd2.3ba5c4d362b55e8da1cd5c44c911d7f9 = comdat any

@alloc_2e38410fced2c310c68bdf2d45d0c3bd = internal constant { [4 x i8], [28 x i8] } { [4 x i8] c"\02\00\00\00", [28 x i8] zeroinitializer }, comdat($alloc_2e38410fced2c310c68bdf2d45d0c3bd.3ba5c4d362b55e8da1cd5c44c911d7f9), align 32
@alloc_7971f3465817cc18ad816e3dbdd7087a = internal constant { [7 x i8], [25 x i8] } { [7 x i8] c"<anon>\00", [25 x i8] zeroinitializer }, comdat($alloc_7971f3465817cc18ad816e3dbdd7087a.3ba5c4d362b55e8da1cd5c44c911d7f9), align 32
@alloc_1d9e4a30726589abce1472f3c301cfd2 = internal constant { <{ ptr, [16 x i8] }>, [40 x i8] } { <{ ptr, [16 x i8] }> <{ ptr @alloc_7971f3465817cc18ad816e3dbdd7087a, [16 x i8] c"\06\00\00\00\00\00\00\00\01\00\00\00+\00\00\00" }>, [40 x i8] zeroinitializer }, comdat($alloc_1d9e4a30726589abce1472f3c301cfd2.3ba5c4d362b55e8da1cd5c44c911d7f9), align 32
@___asan_gen_global = private unnamed_addr constant [39 x i8] c"alloc_2e38410fced2c310c68bdf2d45d0c3bd\00", align 1
@___asan_gen_module = private constant [30 x i8] c"probe5.e1d0dfe292446c30-cgu.0\00", align 1
@___asan_gen_global.1 = private unnamed_addr constant [39 x i8] c"alloc_7971f3465817cc18ad816e3dbdd7087a\00", align 1
@___asan_gen_global.2 = private unnamed_addr constant [39 x i8] c"alloc_1d9e4a30726589abce1472f3c301cfd2\00", align 1
@__asan_global_alloc_2e38410fced2c310c68bdf2d45d0c3bd = private global { i64, i64, i64, i64, i64, i64, i64, i64 } { i64 ptrtoint (ptr @anon.c75f4532e6e36a7cff347e4240db75f1.0 to i64), i64 4, i64 32, i64 ptrtoint (ptr @___asan_gen_global to i64), i64 ptrtoint (ptr @___asan_gen_module to i64), i64 0, i64 0, i64 -1 }, section "asan_globals", comdat($alloc_2e38410fced2c310c68bdf2d45d0c3bd.3ba5c4d362b55e8da1cd5c44c911d7f9), !associated !0
@__asan_global_alloc_7971f3465817cc18ad816e3dbdd7087a = private global { i64, i64, i64, i64, i64, i64, i64, i64 } { i64 ptrtoint (ptr @anon.c75f4532e6e36a7cff347e4240db75f1.1 to i64), i64 7, i64 32, i64 ptrtoint (ptr @___asan_gen_global.1 to i64), i64 ptrtoint (ptr @___asan_gen_module to i64), i64 0, i64 0, i64 -1 }, section "asan_globals", comdat($alloc_7971f3465817cc18ad816e3dbdd7087a.3ba5c4d362b55e8da1cd5c44c911d7f9), !associated !1
@__asan_global_alloc_1d9e4a30726589abce1472f3c301cfd2 = private global { i64, i64, i64, i64, i64, i64, i64, i64 } { i64 ptrtoint (ptr @anon.c75f4532e6e36a7cff347e4240db75f1.2 to i64), i64 24, i64 64, i64 ptrtoint (ptr @___asan_gen_global.2 to i64), i64 ptrtoint (ptr @___asan_gen_module to i64), i64 0, i64 0, i64 -1 }, section "asan_globals", comdat($alloc_1d9e4a30726589abce1472f3c301cfd2.3ba5c4d362b55e8da1cd5c44c911d7f9), !associated !2
@___asan_globals_registered = common hidden global i64 0
@__start_asan_globals = extern_weak hidden global i64
@__stop_asan_globals = extern_weak hidden global i64
@llvm.global_dtors = appending global [1 x { i32, ptr, ptr }] [{ i32, ptr, ptr } { i32 1, ptr @asan.module_dtor, ptr @asan.module_dtor }]
@__sancov_lowest_stack = external thread_local(initialexec) global i64
@__sancov_gen_ = private global [1 x i8] zeroinitializer, section "__sancov_cntrs", comdat($_RNvCsjo0Ni8tRVpk_6probe55probe), align 1
@__sancov_gen_.3 = private constant [2 x ptr] [ptr @_RNvCsjo0Ni8tRVpk_6probe55probe, ptr inttoptr (i64 1 to ptr)], section "__sancov_pcs", comdat($_RNvCsjo0Ni8tRVpk_6probe55probe), align 8
@__sancov_gen_.4 = private global [11 x i8] zeroinitializer, section "__sancov_cntrs", comdat($_RNvXs5R_NtNtCsanpdEcSfypT_4core3ops5arithlINtB6_9AddAssignRlE10add_assignCsjo0Ni8tRVpk_6probe5), align 1
@__sancov_gen_.5 = private constant [22 x ptr] [ptr @_RNvXs5R_NtNtCsanpdEcSfypT_4core3ops5arithlINtB6_9AddAssignRlE10add_assignCsjo0Ni8tRVpk_6probe5, ptr inttoptr (i64 1 to ptr), ptr blockaddress(@_RNvXs5R_NtNtCsanpdEcSfypT_4core3ops5arithlINtB6_9AddAssignRlE10add_assignCsjo0Ni8tRVpk_6probe5, %start._crit_edge), ptr null, ptr blockaddress(@_RNvXs5R_NtNtCsanpdEcSfypT_4core3ops5arithlINtB6_9AddAssignRlE10add_assignCsjo0Ni8tRVpk_6probe5, %._crit_edge), ptr null, ptr blockaddress(@_RNvXs5R_NtNtCsanpdEcSfypT_4core3ops5arithlINtB6_9AddAssignRlE10add_assignCsjo0Ni8tRVpk_6probe5, %24), ptr null, ptr blockaddress(@_RNvXs5R_NtNtCsanpdEcSfypT_4core3ops5arithlINtB6_9AddAssignRlE10add_assignCsjo0Ni8tRVpk_6probe5, %._crit_edge2), ptr null, ptr blockaddress(@_RNvXs5R_NtNtCsanpdEcSfypT_4core3ops5arithlINtB6_9AddAssignRlE10add_assignCsjo0Ni8tRVpk_6probe5, %._crit_edge3), ptr null, ptr blockaddress(@_RNvXs5R_NtNtCsanpdEcSfypT_4core3ops5arithlINtB6_9AddAssignRlE10add_assignCsjo0Ni8tRVpk_6probe5, %43), ptr null, ptr blockaddress(@_RNvXs5R_NtNtCsanpdEcSfypT_4core3ops5arithlINtB6_9AddAssignRlE10add_assignCsjo0Ni8tRVpk_6probe5, %bb1._crit_edge), ptr null, ptr blockaddress(@_RNvXs5R_NtNtCsanpdEcSfypT_4core3ops5arithlINtB6_9AddAssignRlE10add_assignCsjo0Ni8tRVpk_6probe5, %._crit_edge4), ptr null, ptr blockaddress(@_RNvXs5R_NtNtCsanpdEcSfypT_4core3ops5arithlINtB6_9AddAssignRlE10add_assignCsjo0Ni8tRVpk_6probe5, %64), ptr null, ptr blockaddress(@_RNvXs5R_NtNtCsanpdEcSfypT_4core3ops5arithlINtB6_9AddAssignRlE10add_assignCsjo0Ni8tRVpk_6probe5, %panic), ptr null], section "__sancov_pcs", comdat($_RNvXs5R_NtNtCsanpdEcSfypT_4core3ops5arithlINtB6_9AddAssignRlE10add_assignCsjo0Ni8tRVpk_6probe5), align 8
@__sancov_gen_.6 = private global [1 x i8] zeroinitializer, section "__sancov_cntrs", comdat($asan.module_dtor), align 1
@__sancov_gen_.7 = private constant [2 x ptr] [ptr @asan.module_dtor, ptr inttoptr (i64 1 to ptr)], section "__sancov_pcs", comdat($asan.module_dtor), align 8
@__start___sancov_cntrs = extern_weak hidden global i8
@__stop___sancov_cntrs = extern_weak hidden global i8
@llvm.global_ctors = appending global [2 x { i32, ptr, ptr }] [{ i32, ptr, ptr } { i32 1, ptr @asan.module_ctor, ptr @asan.module_ctor }, { i32, ptr, ptr } { i32 2, ptr @sancov.module_ctor_8bit_counters, ptr @sancov.module_ctor_8bit_counters }]
@__start___sancov_pcs = extern_weak hidden global i64
@__stop___sancov_pcs = extern_weak hidden global i64
@llvm.used = appending global [3 x ptr] [ptr @asan.module_ctor, ptr @asan.module_dtor, ptr @sancov.module_ctor_8bit_counters], section "llvm.metadata"
@llvm.compiler.used = appending global [12 x ptr] [ptr @alloc_2e38410fced2c310c68bdf2d45d0c3bd, ptr @alloc_7971f3465817cc18ad816e3dbdd7087a, ptr @alloc_1d9e4a30726589abce1472f3c301cfd2, ptr @__asan_global_alloc_2e38410fced2c310c68bdf2d45d0c3bd, ptr @__asan_global_alloc_7971f3465817cc18ad816e3dbdd7087a, ptr @__asan_global_alloc_1d9e4a30726589abce1472f3c301cfd2, ptr @__sancov_gen_, ptr @__sancov_gen_.3, ptr @__sancov_gen_.4, ptr @__sancov_gen_.5, ptr @__sancov_gen_.6, ptr @__sancov_gen_.7], section "llvm.metadata"

@anon.c75f4532e6e36a7cff347e4240db75f1.0 = private alias { [4 x i8], [28 x i8] }, ptr @alloc_2e38410fced2c310c68bdf2d45d0c3bd
@anon.c75f4532e6e36a7cff347e4240db75f1.1 = private alias { [7 x i8], [25 x i8] }, ptr @alloc_7971f3465817cc18ad816e3dbdd7087a
@anon.c75f4532e6e36a7cff347e4240db75f1.2 = private alias { <{ ptr, [16 x i8] }>, [40 x i8] }, ptr @alloc_1d9e4a30726589abce1472f3c301cfd2

; probe5::probe
; Function Attrs: nonlazybind sanitize_address uwtable
define void @_RNvCsjo0Ni8tRVpk_6probe55probe() unnamed_addr #0 comdat {
start:
  %x = alloca [4 x i8], align 4
  %0 = load i8, ptr @__sancov_gen_, align 1, !nosanitize !7
  %1 = add i8 %0, 1
  store i8 %1, ptr @__sancov_gen_, align 1, !nosanitize !7
  %2 = call ptr @llvm.frameaddress.p0(i32 0)
  %3 = ptrtoint ptr %2 to i64
  %4 = load i64, ptr @__sancov_lowest_stack, align 8, !nosanitize !7
  %5 = icmp ult i64 %3, %4
  br i1 %5, label %6, label %7, !prof !8

6:                                                ; preds = %start
  store i64 %3, ptr @__sancov_lowest_stack, align 8, !nosanitize !7
  br label %7

7:                                                ; preds = %start, %6
  call void @llvm.lifetime.start.p0(ptr %x)
  store i32 1, ptr %x, align 4
; call <i32 as core::ops::arith::AddAssign<&i32>>::add_assign
  call void @_RNvXs5R_NtNtCsanpdEcSfypT_4core3ops5arithlINtB6_9AddAssignRlE10add_assignCsjo0Ni8tRVpk_6probe5(ptr align 4 %x, ptr align 4 @alloc_2e38410fced2c310c68bdf2d45d0c3bd, ptr align 8 @alloc_1d9e4a30726589abce1472f3c301cfd2) #7
  call void @llvm.lifetime.end.p0(ptr %x)
  ret void
}

; <i32 as core::ops::arith::AddAssign<&i32>>::add_assign
; Function Attrs: inlinehint nonlazybind sanitize_address uwtable
define internal void @_RNvXs5R_NtNtCsanpdEcSfypT_4core3ops5arithlINtB6_9AddAssignRlE10add_assignCsjo0Ni8tRVpk_6probe5(ptr align 4 %self, ptr align 4 %other, ptr align 8 %0) unnamed_addr #1 comdat {
start:
  %1 = load i8, ptr @__sancov_gen_.4, align 1, !nosanitize !7
  %2 = add i8 %1, 1
  store i8 %2, ptr @__sancov_gen_.4, align 1, !nosanitize !7
  %3 = call ptr @llvm.frameaddress.p0(i32 0)
  %4 = ptrtoint ptr %3 to i64
  %5 = load i64, ptr @__sancov_lowest_stack, align 8, !nosanitize !7
  %6 = icmp ult i64 %4, %5
  br i1 %6, label %7, label %8, !prof !8

7:                                                ; preds = %start
  store i64 %4, ptr @__sancov_lowest_stack, align 8, !nosanitize !7
  br label %8

8:                                                ; preds = %start, %7
  %9 = ptrtoint ptr %other to i64
  %10 = lshr i64 %9, 3
  %11 = add i64 %10, 2147450880
  %12 = inttoptr i64 %11 to ptr
  %13 = load i8, ptr %12, align 1
  call void @__sanitizer_cov_trace_const_cmp1(i8 0, i8 %13)
  %14 = icmp ne i8 %13, 0
  br i1 %14, label %17, label %start._crit_edge, !prof !8

start._crit_edge:                                 ; preds = %8
  %15 = load i8, ptr getelementptr ([11 x i8], ptr @__sancov_gen_.4, i64 0, i64 1), align 1, !nosanitize !7
  %16 = add i8 %15, 1
  store i8 %16, ptr getelementptr ([11 x i8], ptr @__sancov_gen_.4, i64 0, i64 1), align 1, !nosanitize !7
  br label %27

17:                                               ; preds = %8
  %18 = and i64 %9, 7
  %19 = add i64 %18, 3
  %20 = trunc i64 %19 to i8
  call void @__sanitizer_cov_trace_cmp1(i8 %20, i8 %13)
  %21 = icmp sge i8 %20, %13
  br i1 %21, label %24, label %._crit_edge

._crit_edge:                                      ; preds = %17
  %22 = load i8, ptr getelementptr ([11 x i8], ptr @__sancov_gen_.4, i64 0, i64 2), align 1, !nosanitize !7
  %23 = add i8 %22, 1
  store i8 %23, ptr getelementptr ([11 x i8], ptr @__sancov_gen_.4, i64 0, i64 2), align 1, !nosanitize !7
  br label %27

24:                                               ; preds = %17
  %25 = load i8, ptr getelementptr ([11 x i8], ptr @__sancov_gen_.4, i64 0, i64 3), align 1, !nosanitize !7
  %26 = add i8 %25, 1
  store i8 %26, ptr getelementptr ([11 x i8], ptr @__sancov_gen_.4, i64 0, i64 3), align 1, !nosanitize !7
  call void @__asan_report_load4(i64 %9) #8
  unreachable

27:                                               ; preds = %._crit_edge, %start._crit_edge
  %other1 = load i32, ptr %other, align 4
  %28 = ptrtoint ptr %self to i64
  %29 = lshr i64 %28, 3
  %30 = add i64 %29, 2147450880
  %31 = inttoptr i64 %30 to ptr
  %32 = load i8, ptr %31, align 1
  call void @__sanitizer_cov_trace_const_cmp1(i8 0, i8 %32)
  %33 = icmp ne i8 %32, 0
  br i1 %33, label %36, label %._crit_edge2, !prof !8

._crit_edge2:                                     ; preds = %27
  %34 = load i8, ptr getelementptr ([11 x i8], ptr @__sancov_gen_.4, i64 0, i64 4), align 1, !nosanitize !7
  %35 = add i8 %34, 1
  store i8 %35, ptr getelementptr ([11 x i8], ptr @__sancov_gen_.4, i64 0, i64 4), align 1, !nosanitize !7
  br label %46

36:                                               ; preds = %27
  %37 = and i64 %28, 7
  %38 = add i64 %37, 3
  %39 = trunc i64 %38 to i8
  call void @__sanitizer_cov_trace_cmp1(i8 %39, i8 %32)
  %40 = icmp sge i8 %39, %32
  br i1 %40, label %43, label %._crit_edge3

._crit_edge3:                                     ; preds = %36
  %41 = load i8, ptr getelementptr ([11 x i8], ptr @__sancov_gen_.4, i64 0, i64 5), align 1, !nosanitize !7
  %42 = add i8 %41, 1
  store i8 %42, ptr getelementptr ([11 x i8], ptr @__sancov_gen_.4, i64 0, i64 5), align 1, !nosanitize !7
  br label %46

43:                                               ; preds = %36
  %44 = load i8, ptr getelementptr ([11 x i8], ptr @__sancov_gen_.4, i64 0, i64 6), align 1, !nosanitize !7
  %45 = add i8 %44, 1
  store i8 %45, ptr getelementptr ([11 x i8], ptr @__sancov_gen_.4, i64 0, i64 6), align 1, !nosanitize !7
  call void @__asan_report_load4(i64 %28) #8
  unreachable

46:                                               ; preds = %._crit_edge3, %._crit_edge2
  %47 = load i32, ptr %self, align 4
  %48 = call { i32, i1 } @llvm.sadd.with.overflow.i32(i32 %47, i32 %other1)
  %_4.0 = extractvalue { i32, i1 } %48, 0
  %_4.1 = extractvalue { i32, i1 } %48, 1
  br i1 %_4.1, label %panic, label %bb1

bb1:                                              ; preds = %46
  %49 = ptrtoint ptr %self to i64
  %50 = lshr i64 %49, 3
  %51 = add i64 %50, 2147450880
  %52 = inttoptr i64 %51 to ptr
  %53 = load i8, ptr %52, align 1
  call void @__sanitizer_cov_trace_const_cmp1(i8 0, i8 %53)
  %54 = icmp ne i8 %53, 0
  br i1 %54, label %57, label %bb1._crit_edge, !prof !8

bb1._crit_edge:                                   ; preds = %bb1
  %55 = load i8, ptr getelementptr ([11 x i8], ptr @__sancov_gen_.4, i64 0, i64 7), align 1, !nosanitize !7
  %56 = add i8 %55, 1
  store i8 %56, ptr getelementptr ([11 x i8], ptr @__sancov_gen_.4, i64 0, i64 7), align 1, !nosanitize !7
  br label %67

57:                                               ; preds = %bb1
  %58 = and i64 %49, 7
  %59 = add i64 %58, 3
  %60 = trunc i64 %59 to i8
  call void @__sanitizer_cov_trace_cmp1(i8 %60, i8 %53)
  %61 = icmp sge i8 %60, %53
  br i1 %61, label %64, label %._crit_edge4

._crit_edge4:                                     ; preds = %57
  %62 = load i8, ptr getelementptr ([11 x i8], ptr @__sancov_gen_.4, i64 0, i64 8), align 1, !nosanitize !7
  %63 = add i8 %62, 1
  store i8 %63, ptr getelementptr ([11 x i8], ptr @__sancov_gen_.4, i64 0, i64 8), align 1, !nosanitize !7
  br label %67

64:                                               ; preds = %57
  %65 = load i8, ptr getelementptr ([11 x i8], ptr @__sancov_gen_.4, i64 0, i64 9), align 1, !nosanitize !7
  %66 = add i8 %65, 1
  store i8 %66, ptr getelementptr ([11 x i8], ptr @__sancov_gen_.4, i64 0, i64 9), align 1, !nosanitize !7
  call void @__asan_report_store4(i64 %49) #8
  unreachable

67:                                               ; preds = %._crit_edge4, %bb1._crit_edge
  store i32 %_4.0, ptr %self, align 4
  ret void

panic:                                            ; preds = %46
  %68 = load i8, ptr getelementptr ([11 x i8], ptr @__sancov_gen_.4, i64 0, i64 10), align 1, !nosanitize !7
  %69 = add i8 %68, 1
  store i8 %69, ptr getelementptr ([11 x i8], ptr @__sancov_gen_.4, i64 0, i64 10), align 1, !nosanitize !7
  call void @__asan_handle_no_return()
; call core::panicking::panic_const::panic_const_add_overflow
  call void @_RNvNtNtCsanpdEcSfypT_4core9panicking11panic_const24panic_const_add_overflow(ptr align 8 %0) #9
  unreachable
}

; Function Attrs: nobuiltin nocallback nofree nosync nounwind willreturn
declare void @llvm.lifetime.start.p0(ptr captures(none)) #2

; Function Attrs: nobuiltin nocallback nofree nosync nounwind willreturn
declare void @llvm.lifetime.end.p0(ptr captures(none)) #2

; Function Attrs: nocallback nocreateundeforpoison nofree nosync nounwind speculatable willreturn memory(none)
declare { i32, i1 } @llvm.sadd.with.overflow.i32(i32, i32) #3

; core::panicking::panic_const::panic_const_add_overflow
; Function Attrs: cold noinline noreturn nonlazybind sanitize_address uwtable
declare void @_RNvNtNtCsanpdEcSfypT_4core9panicking11panic_const24panic_const_add_overflow(ptr align 8) unnamed_addr #4

declare void @__asan_report_load_n(i64, i64)

declare void @__asan_loadN(i64, i64)

declare void @__asan_report_load1(i64)

declare void @__asan_load1(i64)

declare void @__asan_report_load2(i64)

declare void @__asan_load2(i64)

declare void @__asan_report_load4(i64)

declare void @__asan_load4(i64)

declare void @__asan_report_load8(i64)

declare void @__asan_load8(i64)

declare void @__asan_report_load16(i64)

declare void @__asan_load16(i64)

declare void @__asan_report_store_n(i64, i64)

declare void @__asan_storeN(i64, i64)

declare void @__asan_report_store1(i64)

declare void @__asan_store1(i64)

declare void @__asan_report_store2(i64)

declare void @__asan_store2(i64)

declare void @__asan_report_store4(i64)

declare void @__asan_store4(i64)

declare void @__asan_report_store8(i64)

declare void @__asan_store8(i64)

declare void @__asan_report_store16(i64)

declare void @__asan_store16(i64)

declare void @__asan_report_exp_load_n(i64, i64, i32)

declare void @__asan_exp_loadN(i64, i64, i32)

declare void @__asan_report_exp_load1(i64, i32)

declare void @__asan_exp_load1(i64, i32)

declare void @__asan_report_exp_load2(i64, i32)

declare void @__asan_exp_load2(i64, i32)

declare void @__asan_report_exp_load4(i64, i32)

declare void @__asan_exp_load4(i64, i32)

declare void @__asan_report_exp_load8(i64, i32)

declare void @__asan_exp_load8(i64, i32)

declare void @__asan_report_exp_load16(i64, i32)

declare void @__asan_exp_load16(i64, i32)

declare void @__asan_report_exp_store_n(i64, i64, i32)

declare void @__asan_exp_storeN(i64, i64, i32)

declare void @__asan_report_exp_store1(i64, i32)

declare void @__asan_exp_store1(i64, i32)

declare void @__asan_report_exp_store2(i64, i32)

declare void @__asan_exp_store2(i64, i32)

declare void @__asan_report_exp_store4(i64, i32)

declare void @__asan_exp_store4(i64, i32)

declare void @__asan_report_exp_store8(i64, i32)

declare void @__asan_exp_store8(i64, i32)

declare void @__asan_report_exp_store16(i64, i32)

declare void @__asan_exp_store16(i64, i32)

declare ptr @__asan_memmove(ptr, ptr, i64)

declare ptr @__asan_memcpy(ptr, ptr, i64)

declare ptr @__asan_memset(ptr, i32, i64)

declare void @__asan_handle_no_return()

declare void @__sanitizer_ptr_cmp(i64, i64)

declare void @__sanitizer_ptr_sub(i64, i64)

; Function Attrs: nocallback nocreateundeforpoison nofree nosync nounwind speculatable willreturn memory(none)
declare i1 @llvm.amdgcn.is.shared(ptr) #3

; Function Attrs: nocallback nocreateundeforpoison nofree nosync nounwind speculatable willreturn memory(none)
declare i1 @llvm.amdgcn.is.private(ptr) #3

declare void @__asan_before_dynamic_init(i64)

declare void @__asan_after_dynamic_init()

declare void @__asan_register_globals(i64, i64)

declare void @__asan_unregister_globals(i64, i64)

declare void @__asan_register_image_globals(i64)

declare void @__asan_unregister_image_globals(i64)

declare void @__asan_register_elf_globals(i64, i64, i64)

declare void @__asan_unregister_elf_globals(i64, i64, i64)

declare void @__asan_init()

; Function Attrs: nounwind
define internal void @asan.module_ctor() #5 comdat {
  call void @__asan_init()
  call void @__asan_version_mismatch_check_v8()
  call void @__asan_register_elf_globals(i64 ptrtoint (ptr @___asan_globals_registered to i64), i64 ptrtoint (ptr @__start_asan_globals to i64), i64 ptrtoint (ptr @__stop_asan_globals to i64))
  ret void
}

declare void @__asan_version_mismatch_check_v8()

; Function Attrs: nounwind
define internal void @asan.module_dtor() #5 comdat {
  %1 = load i8, ptr @__sancov_gen_.6, align 1, !nosanitize !7
  %2 = add i8 %1, 1
  store i8 %2, ptr @__sancov_gen_.6, align 1, !nosanitize !7
  %3 = call ptr @llvm.frameaddress.p0(i32 0)
  %4 = ptrtoint ptr %3 to i64
  %5 = load i64, ptr @__sancov_lowest_stack, align 8, !nosanitize !7
  %6 = icmp ult i64 %4, %5
  br i1 %6, label %7, label %8, !prof !8

7:                                                ; preds = %0
  store i64 %4, ptr @__sancov_lowest_stack, align 8, !nosanitize !7
  br label %8

8:                                                ; preds = %0, %7
  call void @__asan_unregister_elf_globals(i64 ptrtoint (ptr @___asan_globals_registered to i64), i64 ptrtoint (ptr @__start_asan_globals to i64), i64 ptrtoint (ptr @__stop_asan_globals to i64))
  ret void
}

declare void @__sanitizer_cov_trace_pc_indir(i64)

declare void @__sanitizer_cov_trace_cmp1(i8 zeroext, i8 zeroext)

declare void @__sanitizer_cov_trace_cmp2(i16 zeroext, i16 zeroext)

declare void @__sanitizer_cov_trace_cmp4(i32 zeroext, i32 zeroext)

declare void @__sanitizer_cov_trace_cmp8(i64, i64)

declare void @__sanitizer_cov_trace_const_cmp1(i8 zeroext, i8 zeroext)

declare void @__sanitizer_cov_trace_const_cmp2(i16 zeroext, i16 zeroext)

declare void @__sanitizer_cov_trace_const_cmp4(i32 zeroext, i32 zeroext)

declare void @__sanitizer_cov_trace_const_cmp8(i64, i64)

declare void @__sanitizer_cov_load1(ptr)

declare void @__sanitizer_cov_load2(ptr)

declare void @__sanitizer_cov_load4(ptr)

declare void @__sanitizer_cov_load8(ptr)

declare void @__sanitizer_cov_load16(ptr)

declare void @__sanitizer_cov_store1(ptr)

declare void @__sanitizer_cov_store2(ptr)

declare void @__sanitizer_cov_store4(ptr)

declare void @__sanitizer_cov_store8(ptr)

declare void @__sanitizer_cov_store16(ptr)

declare void @__sanitizer_cov_trace_div4(i32 zeroext)

declare void @__sanitizer_cov_trace_div8(i64)

declare void @__sanitizer_cov_trace_gep(i64)

declare void @__sanitizer_cov_trace_switch(i64, ptr)

declare void @__sanitizer_cov_trace_pc()

declare void @__sanitizer_cov_trace_pc_guard(ptr)

declare void @__sanitizer_cov_stack_depth()

; Function Attrs: nocallback nofree nosync nounwind willreturn memory(none)
declare ptr @llvm.frameaddress.p0(i32 immarg) #6

declare void @__sanitizer_cov_8bit_counters_init(ptr, ptr)

; Function Attrs: nounwind
define internal void @sancov.module_ctor_8bit_counters() #5 comdat {
  call void @__sanitizer_cov_8bit_counters_init(ptr @__start___sancov_cntrs, ptr @__stop___sancov_cntrs)
  call void @__sanitizer_cov_pcs_init(ptr @__start___sancov_pcs, ptr @__stop___sancov_pcs)
  ret void
}

declare void @__sanitizer_cov_pcs_init(ptr, ptr)

attributes #0 = { nonlazybind sanitize_address uwtable "target-cpu"="x86-64" }
attributes #1 = { inlinehint nonlazybind sanitize_address uwtable "target-cpu"="x86-64" }
attributes #2 = { nobuiltin nocallback nofree nosync nounwind willreturn }
attributes #3 = { nocallback nocreateundeforpoison nofree nosync nounwind speculatable willreturn memory(none) }
attributes #4 = { cold noinline noreturn nonlazybind sanitize_address uwtable "target-cpu"="x86-64" }
attributes #5 = { nounwind }
attributes #6 = { nocallback nofree nosync nounwind willreturn memory(none) }
attributes #7 = { inlinehint }
attributes #8 = { nomerge }
attributes #9 = { noinline noreturn }

!llvm.module.flags = !{!3, !4, !5}
!llvm.ident = !{!6}

!0 = !{ptr @alloc_2e38410fced2c310c68bdf2d45d0c3bd}
!1 = !{ptr @alloc_7971f3465817cc18ad816e3dbdd7087a}
!2 = !{ptr @alloc_1d9e4a30726589abce1472f3c301cfd2}
!3 = !{i32 8, !"PIC Level", i32 2}
!4 = !{i32 2, !"RtLibUseGOT", i32 1}
!5 = !{i32 4, !"nosanitize_address", i32 1}
!6 = !{!"rustc version 1.97.0-nightly (ad3a598ca 2026-05-03)"}
!7 = !{}
!8 = !{!"branch_weights", i32 1, i32 1048575}
