#![no_main]
//! C11: parsing is total; rejected lines do not influence accepted ones.
use adblock::lists::{parse_filter, FilterFormat, FilterSet, ParseOptions, RuleTypes};
use adblock::request::Request;
use adblock::resources::PermissionMask;
use adblock::Engine;
use libfuzzer_sys::fuzz_target;

fuzz_target!(|data: &[u8]| {
    if data.len() < 2 {
        return;
    }
    let opts = ParseOptions {
        format: if data[0] & 1 == 0 { FilterFormat::Standard } else { FilterFormat::Hosts },
        rule_types: match (data[0] >> 1) % 3 {
            0 => RuleTypes::All,
            1 => RuleTypes::NetworkOnly,
            _ => RuleTypes::CosmeticOnly,
        },
        permissions: PermissionMask::from_bits(data[1]),
    };
    let optimize = data[0] & 0x80 != 0;
    let text = String::from_utf8_lossy(&data[2..]);
    let _ = adblock::lists::read_list_metadata(&text);
    let lines: Vec<&str> = text.lines().collect();
    let mut fs = FilterSet::new(data[0] & 0x40 != 0);
    fs.add_filter_list(&text, opts);
    let e = Engine::from_filter_set(fs, optimize);
    let all = e.serialize_raw().unwrap();
    // line independence: dropping the rejected lines gives the same engine
    let accepted: Vec<&str> = lines.iter().cloned().filter(|l| parse_filter(l, false, opts).is_ok()).collect();
    let mut fs2 = FilterSet::new(data[0] & 0x40 != 0);
    fs2.add_filters(&accepted, opts);
    let e2 = Engine::from_filter_set(fs2, optimize);
    assert_eq!(all, e2.serialize_raw().unwrap(), "rejected lines influenced the engine");
    for l in lines.iter().take(4) {
        let u = format!("https://example.com/{}", l);
        if let Ok(q) = Request::new(&u, "https://site.org/", "script") {
            let _ = e.check_network_request(&q);
            let _ = e.get_csp_directives(&q);
        }
        let r = e.url_cosmetic_resources(&u);
        let _ = e.hidden_class_id_selectors(["ad"], ["ad"], &r.exceptions);
    }
});
