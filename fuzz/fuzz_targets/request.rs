#![no_main]
//! C12: building a request from any strings never panics; invariants of parsed URLs.
use adblock::request::{Request, RequestType};
use libfuzzer_sys::fuzz_target;

fuzz_target!(|data: &[u8]| {
    let text = String::from_utf8_lossy(data);
    let mut parts = text.splitn(3, '\n');
    let url = parts.next().unwrap_or("");
    let source = parts.next().unwrap_or("");
    let ty = parts.next().unwrap_or("script");
    let p = Request::preparsed(url, source, ty, "image", data.len() % 2 == 0);
    let _ = p.get_tokens();
    if let Ok(q) = Request::new(url, source, ty) {
        let scheme = q.url.split(':').next().unwrap_or("");
        let supported = ["http", "https", "ws", "wss"].contains(&scheme);
        assert_eq!(q.is_supported, supported, "is_supported vs scheme {:?}", q.url);
        if scheme == "ws" || scheme == "wss" {
            assert!(q.request_type == RequestType::Websocket);
        }
        assert!(q.hostname.is_ascii(), "hostname not punycoded: {:?}", q.hostname);
        assert!(q.url.contains(&q.hostname), "hostname not in normalised url");
        let p2 = Request::preparsed(&q.url, &q.hostname, "", ty, q.is_third_party);
        assert_eq!(p2.is_supported, q.is_supported);
        assert_eq!(p2.request_type, q.request_type);
        assert_eq!(p2.url, q.url);
    }
});
