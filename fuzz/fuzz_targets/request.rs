#![no_main]
//! C12: building a request from any strings never panics; invariants of parsed URLs.
use adblock::request::{Request, RequestType};
use libfuzzer_sys::fuzz_target;

fuzz_target!(|data: &[u8]| {
    let text = String::from_utf8_lossy(data);
    let mut parts = text.splitn(3, '\n');
    let url = parts.next().unwrap_or("");
    let source = parts.next().unwrap_or("");
    let ty = parts.next().unwrap_or("script");
    // URL parsing ignores ASCII tab / CR / LF wherever they occur: removing them beforehand changes
    // neither whether the URL parses nor the reported host and classification
    if url.contains(['\t', '\r']) {
        let stripped: String = url.chars().filter(|c| !matches!(c, '\t' | '\r')).collect();
        match (Request::new(url, source, ty), Request::new(&stripped, source, ty)) {
            (Ok(a), Ok(b)) => {
                assert_eq!(a.hostname, b.hostname, "tab/CR changed the hostname of {:?}", url);
                assert_eq!((a.is_supported, a.is_third_party, a.request_type.clone()), (b.is_supported, b.is_third_party, b.request_type.clone()));
            }
            (Err(_), Err(_)) => {}
            (a, b) => panic!("tab/CR changed whether {:?} parses: {:?} vs {:?}", url, a.is_ok(), b.is_ok()),
        }
    }
    let p = Request::preparsed(url, source, ty, "image", data.len() % 2 == 0);
    let _ = p.get_tokens();
    if let Ok(q) = Request::new(url, source, ty) {
        let scheme = q.url.split(':').next().unwrap_or("");
        let supported = ["http", "https", "ws", "wss"].contains(&scheme);
        assert_eq!(q.is_supported, supported, "is_supported vs scheme {:?}", q.url);
        if scheme == "ws" || scheme == "wss" {
            assert!(q.request_type == RequestType::Websocket);
        }
        assert!(q.hostname.is_ascii(), "hostname not punycoded: {:?}", q.hostname);
        assert!(q.url.contains(&q.hostname), "hostname not in normalised url");
        let p2 = Request::preparsed(&q.url, &q.hostname, "", ty, q.is_third_party);
        assert_eq!(p2.is_supported, q.is_supported);
        assert_eq!(p2.request_type, q.request_type);
        assert_eq!(p2.url, q.url);
    }
});
