#![no_main]
//! C20: content-blocking export is total and emits only well-formed rules.
use adblock::content_blocking::CbType;
use adblock::lists::{FilterSet, ParseOptions};
use libfuzzer_sys::fuzz_target;

fuzz_target!(|data: &[u8]| {
    let text = String::from_utf8_lossy(data);
    let mut fs = FilterSet::new(true);
    fs.add_filter_list(&text, ParseOptions::default());
    let (rules, used) = fs.into_content_blocking().expect("debug-mode set");
    let mut seen_ignore = false;
    for r in &rules {
        assert!(r.trigger.url_filter.is_ascii(), "non-ASCII url-filter");
        assert!(r.action.selector.iter().all(|s| s.is_ascii()), "non-ASCII selector");
        for l in [&r.trigger.if_domain, &r.trigger.unless_domain] {
            assert!(l.iter().flatten().all(|d| d.is_ascii()), "non-ASCII domain");
        }
        assert!(!(r.trigger.if_domain.is_some() && r.trigger.unless_domain.is_some()), "both if- and unless-domain");
        if r.action.typ == CbType::IgnorePreviousRules {
            seen_ignore = true;
        } else {
            assert!(!seen_ignore, "non-ignore rule after ignore-previous-rules");
        }
    }
    assert!(rules.len() >= used.len(), "fewer rules than converted filters");
});
