#![no_main]
//! C10: hostile serialized data. Oracle inside the target: Err leaves the engine untouched,
//! Ok engines answer queries and re-serialize; any panic is a crash.
use adblock::lists::ParseOptions;
use adblock::request::Request;
use adblock::Engine;
use libfuzzer_sys::fuzz_target;
use std::collections::HashSet;

fn battery(e: &Engine) {
    for (u, t) in [
        ("https://ads.example.com/banner/ad.js?utm=1", "script"),
        ("https://example.com/", "document"),
        ("wss://x.example.org/s", "websocket"),
        ("http://a.b/c", "image"),
    ] {
        if let Ok(q) = Request::new(u, "https://site.org/", t) {
            let _ = e.check_network_request(&q);
            let _ = e.get_csp_directives(&q);
        }
    }
    let r = e.url_cosmetic_resources("https://sub.example.com/page");
    let _ = e.hidden_class_id_selectors(["ad", "banner"], ["ad"], &r.exceptions);
    let _ = e.hidden_class_id_selectors(["ad"], ["x"], &HashSet::new());
    let _ = e.serialize_raw();
}

fuzz_target!(|data: &[u8]| {
    let mut e = Engine::from_rules(
        ["||home.example^", "/keep/*^x$tag=t", "example.com##.home", "@@||ok.example^$generichide"],
        ParseOptions::default(),
    );
    e.use_tags(&["t"]);
    let before = e.serialize_raw().unwrap();
    match e.deserialize(data) {
        Err(_) => {
            assert!(e.tag_exists("t"), "Err changed the enabled tags");
            assert_eq!(e.serialize_raw().unwrap(), before, "Err changed the engine");
        }
        Ok(()) => {
            assert!(e.tag_exists("t"), "Ok changed the caller's tags");
            battery(&e);
        }
    }
});
